#!/usr/bin/env python3
"""apply each mutation to the worktree, run the extension driver, revert; print one line per mutation"""
import re, subprocess, sys
W = '/tmp/dev/c19_content'
MUTS = [
 ('trim-drop-CR-case', 'igris/util/string.h', r"\*left == '\\r' \|\|\s*", ''),
 ('trim-length-off-by-one', 'igris/util/string.h', r"\(right - left\) \+ 1", '(right - left)'),
 ('trim-right-starts-one-early', 'igris/util/string.h', r"view.size\(\) - 1;", 'view.size() - 2;'),
 ('trim-right-loop-tests-left-char', 'igris/util/string.h', r"\(\*right == ' ' \|\| \*right == '\\n' \|\|", "(*left == ' ' || *right == '\\\\n' ||"),
 ('split-char-token-one-short', 'igris/util/string.cpp', r"(outvec.emplace_back\(strt, ptr - strt)(\);\n        \}\n\n        return outvec;\n    \}\n\n    std::vector<std::string> split\(const igris::buffer &str, const char \*delims\))", lambda m: m.group(1) + ' - 1' + m.group(2)),
 ('split-delims-wrong-comparison', 'igris/util/string.cpp', r"strchr\(delims, \*ptr\) == NULL", 'strchr(delims, *ptr) != NULL'),
 ('split-delims-start-stale', 'igris/util/string.cpp', r"(if \(ptr == end\)\n\s*break;\n\n\s*)strt = ptr;(\n\n\s*while \(ptr != end && strchr\(delims, \*ptr\) == NULL\))", lambda m: m.group(1) + 'strt = ptr + 1;' + m.group(2)),
 ('cmdargs-closing-quote-not-skipped', 'igris/util/string.cpp', r"if \(ptr == end\)\n                break;\n\n            ptr\+\+;", 'if (ptr == end)\n                break;\n'),
 ('cmdargs-single-quote-case-dropped', 'igris/util/string.cpp', r"\*ptr == '\"' \|\| \*ptr == '\\''", "*ptr == '\"'"),
 ('argvc-tab-not-a-blank', 'igris/datastruct/argvc.h', r'(static inline int argvc_internal_split\(char \*data, char \*\*argv, int argcmax\)\n\{\n    const char \*ws = )" \\r\\n\\t";', lambda m: m.group(1) + '" \\\\r\\\\n";'),
 ('argvc-argcmax-off-by-one', 'igris/datastruct/argvc.h', r"if \(\*data == '\\0' \|\| argc >= argcmax\)", "if (*data == '\\\\0' || argc > argcmax)"),
 ('argvc-n-nul-written-one-late', 'igris/datastruct/argvc.h', r"\*data\+\+ = '\\0';\n        goto newarg_search;", "*++data = '\\\\0';\n        goto newarg_search;"),
 ('argvc-n-token-pointer-after-scan', 'igris/datastruct/argvc.h', r"argv\[argc\+\+\] = data;\n    while \(data != eptr && !strchr\(ws, \*data\)\)\n        \+\+data;", "while (data != eptr && !strchr(ws, *data))\n        ++data;\n    argv[argc++] = data;"),
 ('memmem-scan-stops-one-early', 'igris/string/memmem.c', r"cur <= last", 'cur < last'),
 ('memmem-compare-one-fewer', 'igris/string/memmem.c', r"memcmp\(cur, cs, s_len\)", 'memcmp(cur, cs, s_len - 1)'),
 ('memmem-scan-starts-at-1', 'igris/string/memmem.c', r"cur = \(char \*\)cl;", 'cur = (char *)cl + 1;'),
 ('memmem-first-byte-wrong-index', 'igris/string/memmem.c', r"cur\[0\] == cs\[0\]", 'cur[0] == cs[1]'),
 ('memmem-memchr-range-short', 'igris/string/memmem.c', r"memchr\(l, \(int\)\*cs, l_len\)", 'memchr(l, (int)*cs, l_len - 1)'),
 ('cmpnode-swapped-sign', 'igris/util/pathops.h', r"\*a < \*b \? -1 : 1", '*a < *b ? 1 : -1'),
 ('cmpnode-slash-not-an-end-of-a', 'igris/util/pathops.h', r"if \(\*a == '\\0' \|\| \*a == '/'\)\n    \{", "if (*a == '\\\\0')\n    {"),
 ('cmpnode-loop-ignores-slash-in-b', 'igris/util/pathops.h', r" && \*b != '/'\)\n    \{\n        if \(\*a == \*b\)", ")\n    {\n        if (*a == *b)"),
 ('cmpnode-tail-returns-1-for-shorter-a', 'igris/util/pathops.h', r"return 0;\n        \}\n\n        return -1;", 'return 0;\n        }\n\n        return 1;'),
 ('skipws-CR-dropped', 'igris/creader.h', r'creader_skip\(reader, "\\t\\n\\r "\)', 'creader_skip(reader, "\\\\t\\\\n ")'),
 ('skip-count-not-incremented', 'igris/creader.h', r"count\+\+;\n", ''),
 ('readline-cursor-on-the-LF', 'igris/creader.h', r"reader->cursor = it \+ 1;", 'reader->cursor = it;'),
 ('readline-CR-not-stripped', 'igris/creader.h', r"\*\(it - 1\) == '\\n' \|\| \*\(it - 1\) == '\\r'", "*(it - 1) == '\\\\n'"),
 ('readline-NUL-not-a-terminator', 'igris/creader.h', r" && \*it != '\\0'\)\n        it\+\+;", ')\n        it++;'),
 ('readline-length-plus-one', 'igris/creader.h', r"len = it - \*token;", 'len = it - *token + 1;'),
]
only = sys.argv[1:]
for (name, f, old, new) in MUTS:
    if only and not any(o in name for o in only):
        continue
    p = W + '/' + f
    s = open(p).read()
    n = len(re.findall(old, s))
    if n != 1:
        print('%-40s PATTERN MATCHES %d' % (name, n)); continue
    open(p, 'w').write(re.sub(old, new if callable(new) else (lambda m: new), s, count=1))
    r = subprocess.run(['python3', '/tmp/dev/c19_content_drv.py', W], capture_output=True, text=True)
    subprocess.run(['git', '-C', W, 'checkout', '-q', '--', '.'])
    out = r.stdout.strip().split('\n')
    fails = [l for l in out if l.startswith('FAIL')]
    fns = sorted(set(l.split('|')[1] for l in fails))
    print('%-40s exit=%d fails=%d functions=%s | %s' % (name, r.returncode, len(fails), ','.join(fns), out[-1]))
    sys.stdout.flush()
