# rewrite 3: path_compare_node as for(;;) with index, De Morgan, helper; memmem offset walk; creader_readline index based
p='/tmp/dev/c19_content/igris/util/pathops.h'
s=open(p).read()
a=s.index('static inline int path_compare_node(const char *a, const char *b)')
a=s.rindex('///', 0, a)
b=s.index('static inline const char *path_remove_prefix')
new='''static inline int path_node_ends(char c)
{
    return c == '\\0' || c == '/';
}

/// compares the nodes
static inline int path_compare_node(const char *a, const char *b)
{
    size_t i;

    for (i = 0;; ++i)
    {
        int ea = path_node_ends(a[i]);
        int eb = path_node_ends(b[i]);

        if (ea || eb)
        {
            if (ea && eb)
                return 0;
            return ea ? -1 : 1;
        }

        if (a[i] != b[i])
            break;
    }

    if (a[i] > b[i])
        return 1;
    return -1;
}

'''
open(p,'w').write(s[:a]+new+s[b:])
p='/tmp/dev/c19_content/igris/string/memmem.c'
s=open(p).read()
a=s.index('    /* the last position where')
b=s.index('    return NULL;\n}')
new='''    for (size_t pos = 0; pos + s_len <= l_len; pos++)
    {
        if (cl[pos] != cs[0])
            continue;
        if (memcmp(cl + pos, cs, s_len) == 0)
            return (char *)cl + pos;
    }

'''
s=s[:a]+new+s[b:]
s=s.replace('    char *cur, *last;\n','')
open(p,'w').write(s)
p='/tmp/dev/c19_content/igris/creader.h'
s=open(p).read()
a=s.index('static inline ptrdiff_t creader_readline(')
b=s.index('static inline int creader_skip(')
new='''static inline ptrdiff_t creader_readline(struct creader *reader,
                                         const char **token)
{
    const char *line = reader->cursor;
    size_t room = (size_t)(reader->fini - reader->cursor);
    size_t i = 0;
    size_t len;
    *token = line;

    if (room == 0)
        return -1;

    for (; i < room; i++)
    {
        if (line[i] == '\\n' || line[i] == '\\0')
            break;
    }

    reader->cursor = (i < room) ? line + i + 1 : line + i;
    if (i == room)
        return (ptrdiff_t)i;

    len = i;
    while (len > 0 && (line[len - 1] == '\\r' || line[len - 1] == '\\n'))
        len--;
    return (ptrdiff_t)len;
}

'''
open(p,'w').write(s[:a]+new+s[b:])
