# rewrite 4: argvc_internal_split with helper predicate, for loops; split_cmdargs with switch and index
p='/tmp/dev/c19_content/igris/datastruct/argvc.h'
s=open(p).read()
a=s.index('static inline int argvc_internal_split(char *data, char **argv, int argcmax)')
a=s.rindex('// Выполняет', 0, a)
b=s.index('// Безопасный вариант')
new='''static inline int argvc_is_blank(char c)
{
    return c == ' ' || c == '\\r' || c == '\\n' || c == '\\t';
}

static inline int argvc_internal_split(char *data, char **argv, int argcmax)
{
    int argc = 0;

    for (;;)
    {
        for (; argvc_is_blank(*data); ++data)
            ;

        if (!*data || argc >= argcmax)
            break;

        argv[argc] = data;
        argc = argc + 1;

        do
        {
            ++data;
        } while (*data && !argvc_is_blank(*data));

        if (!*data)
            break;

        *data = 0;
        data += 1;
    }

    return argc;
}

'''
open(p,'w').write(s[:a]+new+s[b:])
p='/tmp/dev/c19_content/igris/util/string.cpp'
s=open(p).read()
a=s.index('std::vector<std::string> igris::split_cmdargs(const igris::buffer &str)')
new='''std::vector<std::string> igris::split_cmdargs(const igris::buffer &str)
{
    std::vector<std::string> outvec;
    const char *data = str.data();
    size_t n = str.size();
    size_t i = 0;

    while (i < n)
    {
        char stop = ' ';
        switch (data[i])
        {
        case ' ':
            i++;
            continue;
        case '"':
        case '\\'':
            stop = data[i];
            i++;
            break;
        default:
            break;
        }

        size_t strt = i;
        while (i < n && data[i] != stop)
            i++;
        outvec.emplace_back(data + strt, i - strt);

        if (stop != ' ' && i < n)
            i++;
    }

    return outvec;
}
'''
open(p,'w').write(s[:a]+new)
