# rewrite 5: creader_skip with extracted predicate and for loop; memmem with extracted candidate test; split_n as for(;;)
p='/tmp/dev/c19_content/igris/creader.h'
s=open(p).read()
a=s.index('static inline int creader_skip(struct creader *reader, const char *symbols)')
b=s.index('static inline int creader_skipws(')
new='''static inline int creader_is_one_of(char c, const char *symbols)
{
    const char *s = symbols;

    while (*s != 0)
    {
        if (c == *s)
            return 1;
        ++s;
    }

    return 0;
}

static inline int creader_skip(struct creader *reader, const char *symbols)
{
    int count;

    for (count = 0; reader->cursor != reader->fini; ++count, ++reader->cursor)
    {
        if (!creader_is_one_of(*reader->cursor, symbols))
            break;
    }

    return count;
}

'''
open(p,'w').write(s[:a]+new+s[b:])
p='/tmp/dev/c19_content/igris/string/memmem.c'
s=open(p).read()
s=s.replace('void *igris_memmem(', '''static int igris_memmem_here(const char *cur, const char *cs, size_t s_len)
{
    if (*cur != *cs)
        return 0;
    return memcmp(cur, cs, s_len) == 0;
}

void *igris_memmem(''')
s=s.replace('''        if (cur[0] == cs[0] && memcmp(cur, cs, s_len) == 0)
            return cur;''','''        if (igris_memmem_here(cur, cs, s_len))
            return cur;''')
open(p,'w').write(s)
p='/tmp/dev/c19_content/igris/datastruct/argvc.h'
s=open(p).read()
a=s.index('    const char *ws = " \\r\\n\\t";\n    int argc = 0;\n    char *eptr = data + maxlen;')
b=s.index('#endif')
new='''    const char *ws = " \\r\\n\\t";
    int argc = 0;
    char *eptr = data + maxlen;

    for (;;)
    {
        for (; data != eptr; ++data)
        {
            if (*data == '\\0' || !strchr(ws, *data))
                break;
        }

        if (!(data != eptr && *data != '\\0' && argc < argcmax))
            break;

        argv[argc] = data;
        ++argc;

        while (!(data == eptr || strchr(ws, *data)))
            ++data;

        if (data == eptr || *data == '\\0')
            break;

        *data = '\\0';
        ++data;
    }

    return argc;
}

'''
open(p,'w').write(s[:a]+new+s[b:])
