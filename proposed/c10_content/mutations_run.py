#!/usr/bin/env python3
"""apply each textual mutation in the worktree (on top of the fixes), run the driver, revert"""
import subprocess, sys, glob, json, os
W = '/tmp/dev/c10_content'
def sh(c, **kw): return subprocess.run(c, shell=True, capture_output=True, text=True, **kw)
def reset():
    sh('git -C %s checkout -- .' % W)
    for d in sorted(glob.glob('/verif/proposed/c10_content/*.diff')):
        r = sh('git -C %s apply %s' % (W, d))
        if r.returncode: print('cannot apply', d, r.stderr)
def run(name, file, old, new, only, expect, count=1):
    reset()
    p = os.path.join(W, file)
    s = open(p).read()
    if s.count(old) != count:
        print('%-40s PATTERN matches %d times' % (name, s.count(old))); return None
    open(p, 'w').write(s.replace(old, new))
    r = sh('python3 /tmp/dev/c10_content_drv.py --only %s' % only)
    reset()
    viol = [l for l in r.stdout.splitlines() if ': R-' in l]
    rc = r.returncode
    named = [l for l in viol if (' in %s:' % expect) in l or ('%s' % expect) in l.split(': ', 2)[1]]
    print('%-44s exit %d %s %s' % (name, rc, 'NAMED' if named else ('other-fn' if viol else ''), (named or viol or r.stdout.splitlines()[-3:])[0][:230]))
    return dict(name=name, exit=rc, named=bool(named), first=(named or viol or [''])[0])
if __name__ == '__main__':
    import importlib.util
    spec = importlib.util.spec_from_file_location('m', sys.argv[1]); m = importlib.util.module_from_spec(spec); spec.loader.exec_module(m)
    res = []
    for t in m.MUTS:
        if len(sys.argv) > 2 and sys.argv[2] not in t[0]: continue
        res.append(run(*t))
    json.dump(res, open(sys.argv[1] + '.json', 'w'), indent=1)
