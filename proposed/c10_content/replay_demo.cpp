#include <cstddef>
#include <cstdio>
extern "C" void *lin_malloc(size_t);
extern "C" void lin_free(void *);
extern "C" void *lin_realloc(void *, size_t);
alignas(16) char _heap_start[1 << 16];
extern char *__brkval;
extern "C" int critical_context_level(void) { return 0; }
extern "C" void system_lock(void) {}
extern "C" void system_unlock(void) {}
int main()
{
    void *a = lin_malloc(0), *b = lin_malloc(0);
    (void)b;
    lin_free(a);
    char *brk0 = __brkval;
    void *c = lin_realloc(NULL, 0);
    printf("realloc(NULL,0): block %+ld from the freed chunk, break raised by %ld\n", (long)((char *)c - (char *)a), (long)(__brkval - brk0));
    lin_free(c);
    void *d = lin_malloc(0);
    printf("malloc(0):       block %+ld from the freed chunk, break raised by %ld\n", (long)((char *)d - (char *)a), (long)(__brkval - brk0));
    return 0;
}
