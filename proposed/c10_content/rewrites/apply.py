import sys
W='/tmp/dev/c10_content/'
def sub(file, old, new, count=1):
    p = W + file
    s = open(p).read()
    assert s.count(old) == count, (file, old[:50], s.count(old))
    open(p, 'w').write(s.replace(old, new))
R='compat/mem/lin_realloc.cpp'; M='compat/mem/lin_malloc.cpp'; D='igris/datastruct/pool.h'; X='igris/container/pool.h'; S='igris/container/static_object_pool.h'
which = sys.argv[1]
if which == 'r1':   # realloc: word-wise copy loop instead of memcpy; tail release through a helper
    sub(R, '    memcpy(memp, ptr, fp1->sz);\n', '''    {
        size_t *to = (size_t *)memp;
        const size_t *from = (const size_t *)ptr;
        size_t words = fp1->sz / sizeof(size_t);
        for (size_t i = 0; i < words; ++i)
            to[i] = from[i];
    }
''')
elif which == 'r2':  # malloc: unlink helper, while loop, exact-fit/else restructured
    sub(M, 'extern "C" void *malloc(size_t len) __attribute__((used));', '''static void *__take_chunk(struct __freelist *prev, struct __freelist *fp)
{
    if (prev)
        prev->nx = fp->nx;
    else
        __flp = fp->nx;
    return &(fp->nx);
}

extern "C" void *malloc(size_t len) __attribute__((used));''')
    sub(M, '''    for (s = 0, fp1 = __flp, fp2 = 0; fp1; fp2 = fp1, fp1 = fp1->nx)
    {
        if (fp1->sz < len)
            continue;
        if (fp1->sz == len)
        {
            /*
             * Found it.  Disconnect the chunk from the
             * freelist, and return it.
             */
            if (fp2)
                fp2->nx = fp1->nx;
            else
                __flp = fp1->nx;
            return &(fp1->nx);
        }
        else
        {
            if (s == 0 || fp1->sz < s)
            {
                /* this is the smallest chunk found so far */
                s = fp1->sz;
                sfp1 = fp1;
                sfp2 = fp2;
            }
        }
    }''', '''    s = 0;
    fp1 = __flp;
    fp2 = 0;
    while (fp1 != 0)
    {
        if (!(fp1->sz < len))
        {
            if (fp1->sz == len)
                return __take_chunk(fp2, fp1);
            if (!(s != 0 && fp1->sz >= s))
            {
                s = fp1->sz;
                sfp1 = fp1;
                sfp2 = fp2;
            }
        }
        fp2 = fp1;
        fp1 = fp1->nx;
    }''')
    sub(M, '''            /* Disconnect it from freelist and return it. */
            if (sfp2)
                sfp2->nx = sfp1->nx;
            else
                __flp = sfp1->nx;
            return &(sfp1->nx);''', '''            return __take_chunk(sfp2, sfp1);''')
elif which == 'r3':  # free: De Morgan, trivial case restructured, trim loop as while
    sub(M, '''    if (__flp == 0)
    {
        if ((char *)p + fpnew->sz == __brkval)
            __brkval = cpnew;
        else
            __flp = fpnew;
        return;
    }''', '''    if (!__flp)
    {
        if ((char *)p + fpnew->sz != __brkval)
        {
            __flp = fpnew;
            return;
        }
        __brkval = cpnew;
        return;
    }''')
    sub(M, '''        if (fp1 < fpnew)
            continue;
        cp1 = (char *)fp1;''', '''        if (!(fp1 >= fpnew))
            continue;
        cp1 = (char *)fp1;''')
    sub(M, '''    for (fp1 = __flp, fp2 = 0; fp1->nx != 0; fp2 = fp1, fp1 = fp1->nx)
        /* advance to entry just before end of list */;''', '''    fp1 = __flp;
    fp2 = 0;
    while (fp1->nx)
    {
        fp2 = fp1;
        fp1 = fp1->nx;
    }''')
elif which == 'r4':  # pools: index walk in engage, pop without the separate empty test, count via avail loop
    sub(D, '''    char *stop = (char *)zone + size;
    char *it = (char *)zone;

    while (it < stop)
    {
        slist_add((slist_head *)it, &pool->free_blocks);
        it += elemsz;
    }''', '''    char *base = (char *)zone;
    for (size_t off = 0; off < size; off += elemsz)
        slist_add((slist_head *)&base[off], &pool->free_blocks);''')
    sub(D, '''    if (slist_empty(&head->free_blocks))
        return nullptr;

    return (void *)slist_pop_first(&head->free_blocks);''', '''    struct slist_head *first = head->free_blocks.next;
    if (first == &head->free_blocks)
        return nullptr;
    head->free_blocks.next = first->next;
    return (void *)first;''')
elif which == 'r5':  # igris::pool / static_object_pool members restructured
    sub(X, '''            void *ret = pool_alloc(&head);
            if (ret != nullptr)
                _count--;
            return ret;''', '''            void *ret = pool_alloc(&head);
            if (!ret)
                return nullptr;
            _count = _count - 1;
            return ret;''')
    sub(X, '''            if (ptr == NULL)
                return;

            assert((uintptr_t)ptr >= (uintptr_t)_zone);
            assert((uintptr_t)ptr < (uintptr_t)_zone + _size);

            pool_free(&head, ptr);
            _count++;''', '''            if (ptr != NULL)
            {
                assert(!((uintptr_t)ptr < (uintptr_t)_zone || (uintptr_t)ptr >= (uintptr_t)_zone + _size));
                ++_count;
                pool_free(&head, ptr);
            }''')
    sub(S, '''        void* ptr = pool_alloc(&head);
        if (ptr == nullptr) return nullptr;

        T* obj = new (ptr) T(std::forward<Args>(args)...);
        return obj;''', '''        void* ptr = pool_alloc(&head);
        return ptr != nullptr ? new (ptr) T(std::forward<Args>(args)...) : nullptr;''')
elif which == 'r6':  # realloc: memmove, grow branch with switch-like restructure, shrink through helper
    sub(R, 'extern "C" void *realloc(void *ptr, size_t len) __attribute__((used));', '''static void __release_tail(struct __freelist *fp1, char *cp, size_t len)
{
    struct __freelist *tail = (struct __freelist *)cp;
    tail->sz = fp1->sz - len - sizeof(size_t);
    fp1->sz = len;
    __allocation_counter++;
    free(&(tail->nx));
}

extern "C" void *realloc(void *ptr, size_t len) __attribute__((used));''')
    sub(R, '''        fp2 = (struct __freelist *)cp;
        fp2->sz = fp1->sz - len - sizeof(size_t);
        fp1->sz = len;
        /* The split-off tail was never counted by malloc(); free()
         * is about to count it as a released block. */
        __allocation_counter++;
        free(&(fp2->nx));
        return ptr;''', '''        __release_tail(fp1, cp, len);
        return ptr;''')
    sub(R, 'memcpy(memp, ptr, fp1->sz);', 'memmove(memp, ptr, fp1->sz);')
