#!/usr/bin/env python3
"""developer driver: python3 /tmp/dev/c10_content_drv.py [--repo R] [--tier T] [-v] [--only heap,pool]"""
import argparse, os, sys, time
os.environ.setdefault('VERIF_EVIDENCE_DIR', '/tmp/dev/c10_content_ev')
sys.path.insert(0, '/verif/checks')
from irlib import AnalysisBroken
from report import Report
ap = argparse.ArgumentParser()
ap.add_argument('--repo', default='/tmp/dev/c10_content')
ap.add_argument('--tier', default='quick')
ap.add_argument('--only', default=None)
ap.add_argument('-v', action='store_true')
a = ap.parse_args()
rep = Report('C10', a.tier, a.repo)
import c10_content
t0 = time.time()
try:
    bk = c10_content.run_ext(rep, a.repo, a.tier, only=a.only.split(',') if a.only else None)
except AnalysisBroken as e:
    print('ANALYSIS-BROKEN', e)
    sys.exit(2)
print('time %.1fs' % (time.time() - t0), rep.extra.get('c10_content'))
if a.v:
    for i in rep.instances:
        print(('ok   ' if i['ok'] else 'FAIL ') + '%s|%s|%s %s %s' % (i['rule'], i['function'], i['key'], i.get('fact'), '' if i['ok'] else i['detail']))
for u in rep.extra.get('c10_content_unresolved', [])[:10]:
    print('UNRESOLVED', u)
rc = rep.finish()
print('instances %d failing %d exit %d' % (len(rep.instances), sum(1 for i in rep.instances if not i['ok']), rc))
sys.exit(rc)
