M='compat/mem/lin_malloc.cpp'; R='compat/mem/lin_realloc.cpp'
MUTS = [
 ('free-upper-merge-forgets-header', M, 'fpnew->sz += fp1->sz + sizeof(size_t);', 'fpnew->sz += fp1->sz;', 'heap', 'free'),
 ('malloc-split-remainder-off-by-header', M, 'sfp1->sz = s - sizeof(size_t);', 'sfp1->sz = s;', 'heap', 'malloc'),
 ('realloc-move-memcpy-swapped', R, 'memcpy(memp, ptr, fp1->sz);', 'memcpy(ptr, memp, fp1->sz);', 'heap', 'realloc'),
 ('realloc-shrink-tail-header-8-early', R, 'fp2 = (struct __freelist *)cp;\n        fp2->sz = fp1->sz - len - sizeof(size_t);', 'fp2 = (struct __freelist *)(cp - sizeof(size_t));\n        fp2->sz = fp1->sz - len - sizeof(size_t);', 'heap', 'realloc'),
 ('malloc-no-minimum-chunk', M, '    if (len < sizeof(struct __freelist) - sizeof(size_t))\n        len = sizeof(struct __freelist) - sizeof(size_t);', '', 'heap', 'malloc'),
 ('free-break-lowered-to-payload', M, '        if ((char *)p + fpnew->sz == __brkval)\n            __brkval = cpnew;', '        if ((char *)p + fpnew->sz == __brkval)\n            __brkval = (char *)p;', 'heap', 'free'),
 ('realloc-grow-split-wrong-size', R, 'fp2->sz = fp3->sz - incr;', 'fp2->sz = fp3->sz;', 'heap', 'realloc'),
 ('free-lower-merge-compare-wrong', M, 'if (cp2 + fp2->sz == cpnew)', 'if (cp2 + fp2->sz <= cpnew)', 'heap', 'free'),
 ('malloc-exact-fit-unlinks-wrong', M, '            if (fp2)\n                fp2->nx = fp1->nx;\n            else\n                __flp = fp1->nx;\n            return &(fp1->nx);', '            if (fp2)\n                fp2->nx = fp1;\n            else\n                __flp = fp1->nx;\n            return &(fp1->nx);', 'heap', 'malloc'),
 ('realloc-move-forgets-free', R, '    memcpy(memp, ptr, fp1->sz);\n    free(ptr);', '    memcpy(memp, ptr, fp1->sz);', 'heap', 'realloc'),
 ('realloc-extend-top-stale-size', R, '        __brkval = cp;\n        fp1->sz = len;', '        __brkval = cp;', 'heap', 'realloc'),
 ('free-writes-link-before-header', M, '    fpnew->nx = 0;\n', '    fpnew->nx = 0;\n    fpnew[-1].nx = 0;\n', 'heap', 'free'),
 ('realloc-null-case-dropped', R, '    /* Trivial case, required by C standard. */\n    if (ptr == 0)\n        return malloc(len);\n', '', 'heap', 'realloc'),
 ('malloc-best-fit-threshold', M, 'if (s - len < sizeof(struct __freelist))', 'if (s - len <= sizeof(struct __freelist))', 'heap', 'malloc'),
]
