M='compat/mem/lin_malloc.cpp'; R='compat/mem/lin_realloc.cpp'
MUTS = [
 ('NEAR realloc-extends-top-also-when-equal', R, '__brkval == (char *)ptr + fp1->sz && len > s', '__brkval == (char *)ptr + fp1->sz && len >= s', 'heap', 'realloc'),
 ('NEAR malloc-first-fit-among-equals', M, 'if (s == 0 || fp1->sz < s)', 'if (s == 0 || fp1->sz <= s)', 'heap', 'malloc'),
 ('NEAR realloc-shrink-never-splits', R, '        if (fp1->sz <= sizeof(struct __freelist) ||\n            len > fp1->sz - sizeof(struct __freelist))\n            return ptr;', '        return ptr;', 'heap', 'realloc'),
]
