M='compat/mem/lin_malloc.cpp'
MUTS = [
 ('UNRES free-calls-unknown-hook', M, '    fpnew->nx = 0;\n', '    fpnew->nx = 0;\n    { extern void __heap_trace(void *); __heap_trace(p); }\n', 'heap', 'free'),
]
