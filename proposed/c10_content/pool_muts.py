D='igris/datastruct/pool.h'; X='igris/container/pool.h'; S='igris/container/static_object_pool.h'; L='igris/datastruct/slist.h'
MUTS = [
 ('pop-first-does-not-unlink', L, '    head->next = ret->next;\n    return ret;', '    return ret;', 'pool', 'pool_alloc'),
 ('engage-off-by-one-bound', D, 'while (it < stop)', 'while (it <= stop)', 'pool', 'pool_engage'),
 ('get-counts-on-exhaustion', X, '            if (ret != nullptr)\n                _count--;', '            _count--;', 'pool', 'igris::pool::get'),
 ('put-forgets-count', X, '            pool_free(&head, ptr);\n            _count++;', '            pool_free(&head, ptr);', 'pool', 'igris::pool::put'),
 ('destroy-links-before-destructor', S, '        obj->~T();\n        pool_free(&head, obj);', '        pool_free(&head, obj);\n        obj->~T();', 'pool', 'destroy'),
 ('create-does-not-construct', S, 'T* obj = new (ptr) T(std::forward<Args>(args)...);', 'T* obj = (T*)ptr;', 'pool', 'create'),
 ('sop-stride-unpadded', S, 'Capacity * sizeof(storage_type), sizeof(storage_type));', 'Capacity * sizeof(storage_type), storage_type::elsize());', 'pool', 'static_object_pool'),
 ('pool-free-links-next-word', D, 'slist_add((slist_head *)ptr, &head->free_blocks);\n}\n\nstatic inline size_t pool_avail', 'slist_add((slist_head *)ptr + 1, &head->free_blocks);\n}\n\nstatic inline size_t pool_avail', 'pool', 'pool_free'),
 ('cell_is_allocated-bound', X, 'if (i >= (int)size() || i < 0)', 'if (i > (int)size() || i < 0)', 'pool', 'cell_is_allocated'),
 ('size-forgets-division', X, 'return _elemsz ? _size / _elemsz : 0;', 'return _elemsz ? _size : 0;', 'pool', 'igris::pool::size'),
 ('slist_size-starts-at-one', L, '    int i = 0;\n    struct slist_head *it;\n    slist_for_each(it, head) { i++; }', '    int i = 1;\n    struct slist_head *it;\n    slist_for_each(it, head) { i++; }', 'pool', 'avail'),
 ('create-constructs-before-null-test', S, '        if (ptr == nullptr) return nullptr;\n\n        T* obj = new (ptr) T(std::forward<Args>(args)...);\n        return obj;', '        T* obj = new (ptr) T(std::forward<Args>(args)...);\n        if (ptr == nullptr) return nullptr;\n        return obj;', 'pool', 'create'),
 ('pool_alloc-no-empty-test-and-pop-null', D, '    if (slist_empty(&head->free_blocks))\n        return nullptr;\n\n    return (void *)slist_pop_first(&head->free_blocks);', '    return (void *)head->free_blocks.next;', 'pool', 'pool_alloc'),
 ('init-count-one-short', X, '_count = this->size();', '_count = this->size() - 1;', 'pool', 'igris::pool'),
 ('engage-adds-at-tail-pointer+8', D, 'slist_add((slist_head *)it, &pool->free_blocks);', 'slist_add((slist_head *)(it + 8), &pool->free_blocks);', 'pool', 'pool_engage'),
]
