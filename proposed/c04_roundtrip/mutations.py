#!/usr/bin/env python3
"""mutation / rewrite harness of c04_roundtrip: applies each textual change to the private worktree, runs the developer driver,
reverts.  usage: mutations.py [mut|ref] [name-substring]"""
import os
import subprocess
import sys

WT = '/tmp/dev/c04_roundtrip'
DRV = '/tmp/dev/c04_roundtrip_drv.py'
CPP = 'igris/protocols/gstuff.cpp'
HDR = 'igris/protocols/gstuff.h'
ENC1 = 'igris/protocols/gstuff_v1/gstuff.c'
DEC1 = 'igris/protocols/gstuff_v1/autorecv.c'

# (name, mutated function, file, old, new)
MUTATIONS = [
    ('byte-stop-code-is-start-code', 'gstuff_byte', CPP,
     '        *outdata++ = ctx.GSTUFF_STUB_STOP;', '        *outdata++ = ctx.GSTUFF_STUB_START;'),
    ('byte-stub-case-dropped', 'gstuff_byte', CPP,
     '    else if (c == ctx.GSTUFF_STUB)\n    {\n        *outdata++ = ctx.GSTUFF_STUB;\n        *outdata++ = ctx.GSTUFF_STUB_STUB;', '    else if (0)\n    {\n        *outdata++ = ctx.GSTUFF_STUB;\n        *outdata++ = ctx.GSTUFF_STUB_STUB;'),
    ('byte-escape-pair-swapped', 'gstuff_byte', CPP,
     '        *outdata++ = ctx.GSTUFF_STUB;\n        *outdata++ = ctx.GSTUFF_STUB_STUB;',
     '        *outdata++ = ctx.GSTUFF_STUB_STUB;\n        *outdata++ = ctx.GSTUFF_STUB;'),
    ('enc-crc-seed', 'gstuffing_v', CPP, '    uint8_t crc = 0xFF;\n    *outdata++', '    uint8_t crc = 0x00;\n    *outdata++'),
    ('enc-crc-before-last-byte', 'gstuffing_v', CPP,
     '            igris_strmcrc8(&crc, c);\n            outdata += gstuff_byte(c, outdata, ctx);',
     '            if (size) igris_strmcrc8(&crc, c);\n            outdata += gstuff_byte(c, outdata, ctx);'),
    ('enc-piece-loop-starts-at-1', 'gstuffing_v', CPP, 'for (size_t j = 0; j < n; ++j)', 'for (size_t j = (n > 1); j < n; ++j)'),
    ('enc-stops-at-empty-piece', 'gstuffing_v', CPP,
     '        char *data = (char *)vec[j].iov_base;', '        char *data = (char *)vec[j].iov_base;\n        if (!size) break;'),
    ('enc-crc-unescaped', 'gstuffing_v', CPP, '    outdata += gstuff_byte(crc, outdata, ctx);', '    *outdata++ = crc;'),
    ('enc-stop-is-start', 'gstuffing_v', CPP, '    *outdata++ = ctx.GSTUFF_STOP;\n    return', '    *outdata++ = ctx.GSTUFF_START;\n    return'),
    ('enc-len-one-short', 'gstuffing_v', CPP, '    return (int)(outdata - outstrt);\n}\n\nvoid', '    return (int)(outdata - outstrt) - 1;\n}\n\nvoid'),
    ('gstuffing-passes-size-minus-one', 'gstuffing', CPP, 'struct iovec vec[] = {{(void *)data, size}};', 'struct iovec vec[] = {{(void *)data, size ? size - 1 : 0}};'),
    ('recv-stop-code-restores-start', 'newchar', CPP,
     '            c = ctx.GSTUFF_STOP;', '            c = ctx.GSTUFF_START;'),
    ('recv-crc-test-inverted', 'newchar', CPP, '    if (crc != 0)\n    {\n        //Принят', '    if (crc == 0)\n    {\n        //Принят'),
    ('recv-crc-not-stripped', 'newchar', CPP, '        sline_backspace(&line, 1);', '        sline_backspace(&line, 0);'),
    ('recv-crc-after-escape-not-updated', 'newchar', CPP,
     '    igris_strmcrc8(&crc, c);\n    state = 1;', '    if (state == 1) igris_strmcrc8(&crc, c);\n    state = 1;'),
    ('recv-same-marker-empty-line-inverted', 'newchar', CPP, '            if (sline_empty(&line))\n                goto __continue__;',
     '            if (!sline_empty(&line))\n                goto __continue__;'),
    ('recv-overflow-status', 'newchar', CPP, '        sts = GSTUFF_OVERFLOW;\n        state = 0;', '        sts = GSTUFF_CRC_ERROR;\n        state = 0;'),
    ('recv-overflow-ignored', 'newchar', CPP, '    if (!sline_putchar(&line, c))\n    {\n        sts = GSTUFF_OVERFLOW;\n        state = 0;\n        goto __finish__;\n    }',
     '    (void)sline_putchar(&line, c);'),
    ('recv-init-stale-state', 'init', CPP, '    this->state = 0;\n    sline_init', '    this->state = 1;\n    sline_init'),
    ('recv-reset-seed', 'reset', CPP, '    this->crc = 0xff;', '    this->crc = 0x00;'),
    ('v0-context-stub-code', 'gstuff_context_v0', HDR, '        GSTUFF_STUB_STUB_V0\n    };', '        GSTUFF_STUB_START_V0\n    };'),
    ('legacy-enc-crc-stub-case-dropped', 'gstuffing_v1', ENC1,
     '    case GSTUFF_STUB_V1:\n        *outdata++ = GSTUFF_STUB_V1;\n        *outdata++ = GSTUFF_STUB_STUB_V1;\n        break;\n\n    default:\n        *outdata++ = crc;',
     '    default:\n        *outdata++ = crc;'),
    ('legacy-enc-wrong-code', 'gstuffing_v1', ENC1,
     '            *outdata++ = GSTUFF_STUB_V1;\n            *outdata++ = GSTUFF_STUB_STUB_V1;', '            *outdata++ = GSTUFF_STUB_V1;\n            *outdata++ = GSTUFF_STUB_START_V1;'),
    ('legacy-enc-predecrement', 'gstuffing_v1', ENC1, '    while (size--)', '    while (size-- > 1)'),
    ('legacy-recv-stub-code-restores-start', 'gstuff_autorecv_newchar_v1', DEC1,
     '            c = GSTUFF_STUB_V1;', '            c = GSTUFF_START_V1;'),
    ('legacy-recv-crc-not-fed', 'gstuff_autorecv_newchar_v1', DEC1, '    igris_strmcrc8(&autom->crc, c);\n', '    if (autom->state != 2) igris_strmcrc8(&autom->crc, c);\n'),
    ('legacy-recv-empty-test-dropped', 'gstuff_autorecv_newchar_v1', DEC1,
     '            if (sline_empty(\n                    &autom->line)) //< Повторный стартовый. Ничего не делаем.\n                goto __continue__;\n', ''),
    ('legacy-recv-overflow-continues', 'gstuff_autorecv_newchar_v1', DEC1, '        sts = GSTUFF_OVERFLOW_V1;\n        goto __finish__;', '        goto __continue__;'),
    ('legacy-setbuf-no-reset', 'gstuff_autorecv_reset_v1', DEC1, '    autom->crc = 0xff;', '    autom->crc = 0xfe;'),
]

# behaviour-preserving rewrites: (name, file, old, new)
REWRITES = [
    ('byte-index-stores-and-switch-like', CPP,
     '''    if (c == ctx.GSTUFF_START)
    {
        *outdata++ = ctx.GSTUFF_STUB;
        *outdata++ = ctx.GSTUFF_STUB_START;
        return 2;
    }
    else if (c == ctx.GSTUFF_STUB)
    {
        *outdata++ = ctx.GSTUFF_STUB;
        *outdata++ = ctx.GSTUFF_STUB_STUB;
        return 2;
    }
    else if (c == ctx.GSTUFF_STOP)
    {
        *outdata++ = ctx.GSTUFF_STUB;
        *outdata++ = ctx.GSTUFF_STUB_STOP;
         return 2;
    }
    else
    {
        *outdata++ = c;
        return 1;
    }''',
     '''    char code;
    if (!(c != ctx.GSTUFF_START))
        code = ctx.GSTUFF_STUB_START;
    else if (c == ctx.GSTUFF_STUB)
        code = ctx.GSTUFF_STUB_STUB;
    else if (c == ctx.GSTUFF_STOP)
        code = ctx.GSTUFF_STUB_STOP;
    else
    {
        outdata[0] = c;
        return 1;
    }
    outdata[0] = ctx.GSTUFF_STUB;
    outdata[1] = code;
    return 2;'''),
    ('enc-index-walk-and-helper', CPP,
     '''        size_t size = vec[j].iov_len;
        char *data = (char *)vec[j].iov_base;
        while (size--)
        {
            char c = *data++;
            igris_strmcrc8(&crc, c);
            outdata += gstuff_byte(c, outdata, ctx);
        }''',
     '''        const char *data = (const char *)vec[j].iov_base;
        for (size_t k = 0; k != vec[j].iov_len; k++)
        {
            igris_strmcrc8(&crc, data[k]);
            int w = gstuff_byte(data[k], outdata, ctx);
            outdata = outdata + w;
        }'''),
    ('enc-return-by-counter', CPP,
     '''    outdata += gstuff_byte(crc, outdata, ctx);
    *outdata++ = ctx.GSTUFF_STOP;
    return (int)(outdata - outstrt);''',
     '''    int total = (int)(outdata - outstrt);
    total += gstuff_byte((char)crc, outstrt + total, ctx);
    outstrt[total] = ctx.GSTUFF_STOP;
    return total + 1;'''),
    ('recv-escape-switch-to-lookup', CPP,
     '''        if (c == ctx.GSTUFF_STUB_START)
        {
            c = ctx.GSTUFF_START;
        }
        else if (c == ctx.GSTUFF_STUB_STOP)
        {
            c = ctx.GSTUFF_STOP;
        }
        else if (c == ctx.GSTUFF_STUB_STUB)
        {
            c = ctx.GSTUFF_STUB;
        }
        else if (c == ctx.GSTUFF_START) ''',
     '''        if (c == ctx.GSTUFF_STUB_START || c == ctx.GSTUFF_STUB_STOP || c == ctx.GSTUFF_STUB_STUB)
        {
            const char from[3] = {ctx.GSTUFF_STUB_START, ctx.GSTUFF_STUB_STOP, ctx.GSTUFF_STUB_STUB};
            const char to[3] = {ctx.GSTUFF_START, ctx.GSTUFF_STOP, ctx.GSTUFF_STUB};
            for (int k = 0; k < 3; k++)
                if (from[k] == c)
                {
                    c = to[k];
                    break;
                }
        }
        else if (c == ctx.GSTUFF_START) '''),
    ('recv-stop-handler-inline-returns', CPP,
     '''__stop_handler__:
    if (crc != 0)
    {
        //Принят символ окончания пакета, но crc не пройден.
        sts = GSTUFF_CRC_ERROR;
        goto __finish__;
    }

    else
    {
        //Корректный приём пакета. Удаляем crc символ
        sline_backspace(&line, 1);
        sts = GSTUFF_NEWPACKAGE;
        goto __finish__;
    }
''',
     '''__stop_handler__:
    state = 0;
    if (!crc)
    {
        line.len -= 1;
        line.cursor -= 1;
        return GSTUFF_NEWPACKAGE;
    }
    return GSTUFF_CRC_ERROR;
'''),
    ('legacy-enc-if-chain-index-walk', ENC1,
     '''    while (size--)
    {
        char c = *data++;
        igris_strmcrc8(&crc, c);

        switch (c)
        {
        case GSTUFF_START_V1:
            *outdata++ = GSTUFF_STUB_V1;
            *outdata++ = GSTUFF_STUB_START_V1;
            break;

        case GSTUFF_STUB_V1:
            *outdata++ = GSTUFF_STUB_V1;
            *outdata++ = GSTUFF_STUB_STUB_V1;
            break;

        default:
            *outdata++ = c;
        }
    }''',
     '''    for (int k = 0; k < size; ++k)
    {
        char c = data[k];
        igris_strmcrc8(&crc, c);
        if (c == GSTUFF_START_V1 || c == GSTUFF_STUB_V1)
        {
            *outdata++ = GSTUFF_STUB_V1;
            *outdata++ = (c == GSTUFF_START_V1) ? GSTUFF_STUB_START_V1 : GSTUFF_STUB_STUB_V1;
        }
        else
            *outdata++ = c;
    }'''),
    ('legacy-recv-if-chain', DEC1,
     '''        switch (c)
        {
        case GSTUFF_STUB_START_V1:
            c = GSTUFF_START_V1;
            break;
        case GSTUFF_STUB_STUB_V1:
            c = GSTUFF_STUB_V1;
            break;
        default:
            // Невалидный пакет.
            sts = GSTUFF_DATA_ERROR_V1;
            goto __finish__;
        }
''',
     '''        if (c != GSTUFF_STUB_START_V1 && c != GSTUFF_STUB_STUB_V1)
        {
            sts = GSTUFF_DATA_ERROR_V1;
            goto __finish__;
        }
        c = (c == GSTUFF_STUB_START_V1) ? GSTUFF_START_V1 : GSTUFF_STUB_V1;
'''),
    ('recv-unsigned-compares', CPP,
     '''        if (c == ctx.GSTUFF_STOP) 
        {
            // Срабатывает на стоп байт (может быть равен стартовому).
            goto __stop_handler__;
        }
    
        else if (c == ctx.GSTUFF_STUB) ''',
     '''        if ((uint8_t)c == (uint8_t)ctx.GSTUFF_STOP)
        {
            goto __stop_handler__;
        }

        else if ((unsigned)(uint8_t)c == (unsigned)(uint8_t)ctx.GSTUFF_STUB) '''),
    ('legacy-recv-unsigned-switch', DEC1,
     '''        switch (c)
        {
        case GSTUFF_START_V1:
            //Приняли стартовый символ.''',
     '''        switch ((unsigned char)c)
        {
        case (unsigned char)GSTUFF_START_V1:
            //Приняли стартовый символ.''',
     '''        case GSTUFF_STUB_V1:
            //Принят STUFF ждем вторй байт.''',
     '''        case (unsigned char)GSTUFF_STUB_V1:
            //Принят STUFF ждем вторй байт.'''),
    ('legacy-enc-unsigned-int-temp', ENC1,
     '''        char c = *data++;
        igris_strmcrc8(&crc, c);

        switch (c)
        {
        case GSTUFF_START_V1:''',
     '''        int ci = (unsigned char)*data++;
        char c = (char)ci;
        igris_strmcrc8(&crc, (char)ci);

        switch (c)
        {
        case GSTUFF_START_V1:'''),
    ('enc-memcpy-pair', CPP,
     '''    if (c == ctx.GSTUFF_START)
    {
        *outdata++ = ctx.GSTUFF_STUB;
        *outdata++ = ctx.GSTUFF_STUB_START;
        return 2;
    }''',
     '''    if (c == ctx.GSTUFF_START)
    {
        const char pair[2] = {ctx.GSTUFF_STUB, ctx.GSTUFF_STUB_START};
        __builtin_memcpy(outdata, pair, 2);
        return 2;
    }'''),
]


def run():
    r = subprocess.run(['python3', DRV, '--repo', WT], capture_output=True, text=True, cwd='/verif/checks')
    return r.returncode, r.stdout + r.stderr


def apply(path, old, new):
    p = os.path.join(WT, path)
    strip = lambda t: '\n'.join(l.rstrip() for l in t.split('\n'))
    s = strip(open(p, encoding='utf-8').read())
    old, new = strip(old), new
    if s.count(old) != 1:
        return False
    open(p, 'w', encoding='utf-8').write(s.replace(old, new))
    return True


def revert():
    subprocess.run(['git', '-C', WT, 'checkout', '--', '.'], check=True)


def main():
    mode = sys.argv[1] if len(sys.argv) > 1 else 'mut'
    sub = sys.argv[2] if len(sys.argv) > 2 else ''
    if mode == 'mut':
        for (name, fn, path, old, new) in MUTATIONS:
            if sub not in name:
                continue
            if not apply(path, old, new):
                print('%-40s PATTERN NOT FOUND' % name)
                continue
            try:
                rc, out = run()
            finally:
                revert()
            lines = [l for l in out.split('\n') if RULEP in l and ' in ' in l and not l.startswith('VIOLATION')]
            named = any(fn in l for l in lines)
            print('%-40s %-28s exit %d, %d violation line(s), names %s: %s' % (name, fn, rc, len(lines), fn, 'yes' if named else 'NO'))
            for l in [l for l in lines if fn in l][:1] or lines[:1]:
                print('      ' + l[:420])
            for l in out.split('\n'):
                if l.startswith('NOTE') or l.startswith('ANALYSIS-BROKEN') or 'Traceback' in l or 'Error' in l:
                    print('      ' + l[:300])
    else:
        for (name, path, *pairs) in REWRITES:
            if sub not in name:
                continue
            if not all(apply(path, pairs[k], pairs[k + 1]) for k in range(0, len(pairs), 2)):
                print('%-40s PATTERN NOT FOUND' % name)
                revert()
                continue
            try:
                rc, out = run()
            finally:
                revert()
            print('%-40s exit %d %s' % (name, rc, 'silent' if rc == 0 else ''))
            if rc != 0:
                print('\n'.join('      ' + l[:400] for l in out.split('\n')[-12:]))


RULEP = 'R-ROUNDTRIP'
if __name__ == '__main__':
    main()
