/* witness unit: forces emission of every function of datastruct/ring.h and ring_counter.h */
#include <igris/datastruct/ring.h>
#include <igris/datastruct/ring_counter.h>
void *igris_verif_use_ring[] = {
    (void *)ring_init, (void *)ring_clean, (void *)ring_fixup_head, (void *)ring_fixup_tail,
    (void *)ring_fixup_index, (void *)ring_empty, (void *)ring_full, (void *)ring_avail,
    (void *)ring_room, (void *)ring_move_head_one, (void *)ring_move_tail_one,
    (void *)ring_move_head, (void *)ring_move_tail, (void *)ring_putc, (void *)ring_getc,
    (void *)ring_read, (void *)ring_write,
    (void *)ring_counter_init, (void *)ring_counter_fixup, (void *)ring_counter_fixup_pos,
    (void *)ring_counter_set, (void *)ring_counter_increment, (void *)ring_counter_get,
    (void *)ring_counter_prev, (void *)ring_counter_last};
