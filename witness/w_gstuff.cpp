// witness unit: materialises the two marker alphabets shipped by igris/protocols/gstuff.h
#include <igris/protocols/gstuff.h>
void igris_verif_ctx_default(gstuff_context *out) { *out = gstuff_context(); }
void igris_verif_ctx_v0(gstuff_context *out) { *out = gstuff_context_v0(); }
