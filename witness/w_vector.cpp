// witness unit: igris::vector<int> and igris::vector<VTr> (probe element), flat_map, flat_set
#include "probe.h"
#include <igris/container/vector.h>

template <class T>
void use_vec(igris::vector<T> &v, const igris::vector<T> &c, const T &x, T *a, T *b, size_t n, int k)
{
    igris::vector<T> d;
    igris::vector<T> cp(c);
    igris::vector<T> mv(static_cast<igris::vector<T> &&>(v));
    igris::vector<T> sz(n);
    igris::vector<T> it(a, (T *const)b);
    igris::vector<T> rg((const T *)a, (const T *)b);
    v = c;
    v = static_cast<igris::vector<T> &&>(d);
    (void)v.data();
    (void)c.data();
    (void)c.size();
    (void)c.capacity();
    (void)v.front();
    (void)v.back();
    (void)c.front();
    (void)c.back();
    v.invalidate();
    (void)v.reserve(n);
    v.clear();
    (void)v.begin();
    (void)v.end();
    (void)v.rbegin();
    (void)v.rend();
    (void)c.begin();
    (void)c.end();
    (void)c.rbegin();
    (void)c.rend();
    v.emplace_back(x);
    v.push_back(x);
    v.pop_back();
    (void)c.empty();
    (void)v.emplace(v.begin(), x);
    (void)v.insert((const T *)v.begin(), x);
    (void)v.insert(v.begin(), (const T *)a, (const T *)b);
    (void)v.insert(k, x);
    v.resize(n);
    v.erase(v.begin());
    v.erase(v.begin(), v.end());
    (void)v.at(n);
    (void)v[n];
    (void)c[n];
    (void)c.at(n);
}

void igris_verif_use_vec_int(igris::vector<int> &v, const igris::vector<int> &c, const int &x, int *a, int *b,
                             size_t n, int k)
{
    use_vec<int>(v, c, x, a, b, n, k);
    igris::vector<int> il{1, 2, 3};
    (void)(v == c);
    (void)(v != c);
    (void)(v < c);
    (void)v.insert_sorted(x);
}

void igris_verif_use_vec_tr(igris::vector<VTr> &v, const igris::vector<VTr> &c, const VTr &x, VTr *a, VTr *b,
                            size_t n, int k)
{
    use_vec<VTr>(v, c, x, a, b, n, k);
}
