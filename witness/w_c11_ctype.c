/* C11 witness: the ctype predicates the libc shim is built with (compat/libc/include/ctype.h,
 * which forwards to igris/util/ctype.h).  Compiled with -I<repo>/compat/libc/include so that
 * <ctype.h> resolves to the bundled header; the wrappers force emission of the static inlines. */
#include <ctype.h>

int igris_c11_isspace(int c) { return isspace(c); }
int igris_c11_isdigit(int c) { return isdigit(c); }
int igris_c11_isalpha(int c) { return isalpha(c); }
int igris_c11_isupper(int c) { return isupper(c); }
int igris_c11_isxdigit(int c) { return isxdigit(c); }
