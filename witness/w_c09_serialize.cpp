// witness unit for property C09 (archive.h / helper.h / stdtypes.h family):
// instantiates igris::serialize(const T&) -> std::string and
// igris::deserialize<T>(igris::buffer) for one representative of every kind of
// supported type through use-functions.  The check walks the resolved call
// trees of these instantiations; nothing here is ever executed.
#include <igris/serialize/serialize.h>
#include <igris/serialize/stdtypes.h>

#include <cstdint>
#include <map>
#include <string>
#include <tuple>
#include <utility>
#include <vector>

struct igris_verif_refl
{
    int a = 0;
    uint8_t b = 0;
    int16_t c = 0;
    double d = 0;

    template <class R> void reflect(R &r)
    {
        r &a;
        r &b;
        r &c;
        r &d;
    }
};

struct igris_verif_nested
{
    igris_verif_refl head;
    std::string name;
    std::vector<int> samples;
    std::map<std::string, int32_t> index;

    template <class R> void reflect(R &r)
    {
        r &head;
        r &name;
        r &samples;
        r &index;
    }
};

#define USE(tag, ...)                                                          \
    std::string igris_verif_w_##tag(const __VA_ARGS__ &v)                      \
    {                                                                          \
        return igris::serialize(v);                                            \
    }                                                                          \
    __VA_ARGS__ igris_verif_r_##tag(const igris::buffer &in)                   \
    {                                                                          \
        return igris::deserialize<__VA_ARGS__>(in);                            \
    }

USE(i8, int8_t)
USE(u8, uint8_t)
USE(i16, int16_t)
USE(u16, uint16_t)
USE(i32, int32_t)
USE(u32, uint32_t)
USE(i64, int64_t)
USE(u64, uint64_t)
USE(f32, float)
USE(f64, double)
USE(f80, long double)
USE(string, std::string)
USE(vec_i32, std::vector<int32_t>)
USE(vec_f64, std::vector<double>)
USE(vec_string, std::vector<std::string>)
USE(vec_vec_i32, std::vector<std::vector<int32_t>>)
USE(vec_refl, std::vector<igris_verif_refl>)
USE(pair_i32_string, std::pair<int32_t, std::string>)
USE(pair_u8_u8, std::pair<uint8_t, uint8_t>)
USE(tuple_i32_f64_string, std::tuple<int32_t, double, std::string>)
USE(map_string_i32, std::map<std::string, int32_t>)
USE(map_i32_vec_string, std::map<int32_t, std::vector<std::string>>)
USE(refl, igris_verif_refl)
USE(nested, igris_verif_nested)
USE(vec_nested, std::vector<igris_verif_nested>)
USE(vec_map_i32_i32, std::vector<std::map<int32_t, int32_t>>)

// counted raw buffers (igris::buffer / char* + length) of the archive itself
void igris_verif_w_cbuf(igris::archive::binary_serializer_basic &w,
                        const char *dat, uint16_t sz)
{
    w.dump(dat, sz);
}
void igris_verif_r_cbuf(igris::archive::binary_deserializer_basic &r,
                        char *dat, uint16_t maxsz)
{
    r.load(dat, maxsz);
}
void igris_verif_w_buffer(igris::archive::binary_serializer_basic &w,
                          igris::buffer buf)
{
    w.dump(buf);
}
void igris_verif_r_setbuffer(igris::archive::binary_deserializer_basic &r,
                             igris::buffer &buf)
{
    r.load_set_buffer(buf);
}
void igris_verif_r_wrbuffer(igris::archive::binary_deserializer_basic &r,
                            igris::archive::writable_buffer &buf)
{
    r.load(buf);
}
void igris_verif_w_sv(igris::archive::binary_serializer_basic &w,
                      std::string_view sv)
{
    w.dump(sv);
}

// concrete readers / writers (cursor movement): constructing the objects emits
// their vtables and virtual members
void igris_verif_bufreader(const char *src, size_t n, char *dat, uint16_t sz,
                           int k)
{
    igris::archive::binary_buffer_reader r(src, n);
    r.load_data(dat, sz);
    r.skip(k);
    (void)r.pointer();
    (void)r.end();
}
void igris_verif_bufreader_buf(igris::buffer b)
{
    igris::archive::binary_buffer_reader r(b);
    (void)r.pointer();
}
void igris_verif_bufwriter(char *dst, size_t n, const char *dat, uint16_t sz)
{
    igris::archive::binary_buffer_writer w(dst, n);
    w.dump_data(dat, sz);
}
void igris_verif_strwriter(std::string &out, const char *dat, uint16_t sz)
{
    igris::archive::binary_string_writer w(out);
    w.dump_data(dat, sz);
}
