/* witness unit (C19): forces emission of the static inline helpers of igris/util/pathops.h and igris/creader.h */
#include <igris/util/pathops.h>
#include <igris/creader.h>
void *igris_verif_use_pathops[] = {
    (void *)path_is_single_dot, (void *)path_next, (void *)path_skip_slashes_and_single_dots, (void *)path_iterate,
    (void *)path_is_double_dot, (void *)path_is_abs, (void *)path_is_simple, (void *)path_last_node,
    (void *)path_compare_node, (void *)path_remove_prefix};
void *igris_verif_use_creader[] = {(void *)creader_init, (void *)creader_end, (void *)creader_curpos,
                                   (void *)creader_itpos, (void *)creader_readline, (void *)creader_skip,
                                   (void *)creader_skipws};
