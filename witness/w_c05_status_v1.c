// witness unit of checks/c05.py: the status codes and the alphabet of the legacy gstuff receiver as data.  Nothing here is
// executed; the unit is lowered to IR only.
#include <igris/protocols/gstuff_v1/autorecv.h>

const int igris_verif_c05_v1_status[5] = {GSTUFF_CONTINUE_V1, GSTUFF_NEWPACKAGE_V1, GSTUFF_CRC_ERROR_V1, GSTUFF_OVERFLOW_V1,
                                          GSTUFF_DATA_ERROR_V1};
const char igris_verif_c05_v1_alphabet[4] = {GSTUFF_START_V1, GSTUFF_STUB_V1, GSTUFF_STUB_START_V1, GSTUFF_STUB_STUB_V1};
