// witness unit for the round-trip extension of property C09 (checks/c09_roundtrip.py), archive.h / stdtypes.h family:
// deeper nestings than w_c09_serialize.cpp (containers of containers to depth 3, maps whose mapped type is a
// container, containers of pairs / tuples, a reflectable struct that holds reflectable structs).  The check lays out
// values of these types on small concrete shapes with symbolic contents and interprets writer and reader on them;
// nothing here is ever executed.
#include <igris/serialize/serialize.h>
#include <igris/serialize/stdtypes.h>

#include <cstdint>
#include <map>
#include <string>
#include <tuple>
#include <utility>
#include <vector>

struct igris_verif_rt_inner
{
    uint16_t id = 0;
    std::string tag;

    template <class R> void reflect(R &r)
    {
        r &id;
        r &tag;
    }
};

struct igris_verif_rt_outer
{
    std::vector<igris_verif_rt_inner> items;
    std::tuple<uint8_t, std::string> label;
    std::map<uint8_t, std::vector<int16_t>> table;
    float scale = 0;
    igris_verif_rt_inner last;

    template <class R> void reflect(R &r)
    {
        r &items;
        r &label;
        r &table;
        r &scale;
        r &last;
    }
};

#define USE(tag, ...)                                                          \
    std::string igris_verif_w_##tag(const __VA_ARGS__ &v)                      \
    {                                                                          \
        return igris::serialize(v);                                            \
    }                                                                          \
    __VA_ARGS__ igris_verif_r_##tag(const igris::buffer &in)                   \
    {                                                                          \
        return igris::deserialize<__VA_ARGS__>(in);                            \
    }

USE(vec_u8, std::vector<uint8_t>)
USE(vec_vec_i16, std::vector<std::vector<int16_t>>)
USE(vec_vec_vec_u8, std::vector<std::vector<std::vector<uint8_t>>>)
USE(map_string_vec_i16, std::map<std::string, std::vector<int16_t>>)
USE(map_u8_map_string_f64, std::map<uint8_t, std::map<std::string, double>>)
USE(vec_pair_string_u16, std::vector<std::pair<std::string, uint16_t>>)
USE(vec_tuple_u8_string, std::vector<std::tuple<uint8_t, std::string>>)
USE(tuple_vec_pair_f32,
    std::tuple<std::vector<uint8_t>, std::pair<int16_t, std::string>, float>)
USE(pair_vec_string_map_i32_string,
    std::pair<std::vector<std::string>, std::map<int32_t, std::string>>)
USE(rt_inner, igris_verif_rt_inner)
USE(rt_outer, igris_verif_rt_outer)
USE(vec_rt_outer, std::vector<igris_verif_rt_outer>)

// the memcpy based writer (the string writer is constructed in w_c09_serialize.cpp already)
void igris_verif_rt_bufwriter(char *dst, size_t n, const char *dat, uint16_t sz)
{
    igris::archive::binary_buffer_writer w(dst, n);
    w.dump_data(dat, sz);
}
void igris_verif_rt_strwriter(std::string &out, const char *dat, uint16_t sz)
{
    igris::archive::binary_string_writer w(out);
    w.dump_data(dat, sz);
}
void igris_verif_rt_bufreader(const char *src, size_t n, char *dat, uint16_t sz)
{
    igris::archive::binary_buffer_reader r(src, n);
    r.load_data(dat, sz);
}
