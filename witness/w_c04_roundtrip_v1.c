// witness unit of checks/c04_roundtrip.py: the legacy gstuff codec as ONE module - encoder (gstuff_v1/gstuff.c) and
// receiver (gstuff_v1/autorecv.c).  Nothing here is executed; the unit is lowered to IR only.
#include <igris/protocols/gstuff_v1/gstuff.c>
#include <igris/protocols/gstuff_v1/autorecv.c>

// the legacy alphabet (macros of gstuff_v1/gstuff.h) materialised as data: START (= STOP), STUB, code of START, code of STUB
const char igris_verif_rt_v1_alphabet[4] = {GSTUFF_START_V1, GSTUFF_STUB_V1, GSTUFF_STUB_START_V1, GSTUFF_STUB_STUB_V1};

// the status codes of the legacy receiver API the round trip talks about
const int igris_verif_rt_v1_status[3] = {GSTUFF_CONTINUE_V1, GSTUFF_NEWPACKAGE_V1, GSTUFF_OVERFLOW_V1};
