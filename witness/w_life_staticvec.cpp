// witness unit of the element-lifetime rules (checks/c14_life.py): every member of
// igris::static_vector<VTr, LIFE_N> (VTr: probe element, witness/probe.h).
// -DLIFE_TWIN selects the std_portable.h twin, -DLIFE_N=<n> the capacity.
#include "probe.h"
#ifdef LIFE_TWIN
#include <igris/container/std_portable.h>
#else
#include <igris/container/static_vector.h>
#endif
#ifndef LIFE_N
#define LIFE_N 4
#endif

typedef igris::static_vector<VTr, LIFE_N> SV;

void igris_verif_life_sv(SV &v, const SV &c, const VTr &x, VTr &y, const VTr *b, const VTr *e, size_t n)
{
    SV d;
    SV cp(c);
    SV mv(static_cast<SV &&>(v));
    v = c;
    v = static_cast<SV &&>(d);
    v.emplace_back(x);
    v.emplace_back(static_cast<VTr &&>(y));
    v.emplace_back(7);
    v.emplace_back();
    v.push_back(x);
    (void)v[n];
    (void)c[n];
    (void)v.data();
    (void)c.data();
    (void)c.room();
    (void)c.size();
    (void)v.begin();
    (void)v.end();
    (void)c.begin();
    (void)c.end();
    (void)v.back();
    (void)c.back();
    (void)v.front();
    (void)c.front();
    v.resize(n);
    v.clear();
#ifndef LIFE_TWIN
    SV rng(b, e);
    SV il{x, x};
    v.erase(v.begin(), v.end());
#endif
}
