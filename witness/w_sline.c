/* witness unit: forces emission of every sline function (static inline in the header) */
#include <igris/datastruct/sline.h>
void *igris_verif_use_sline[] = {
    (void *)sline_getline, (void *)sline_rightpart, (void *)sline_rightsize,
    (void *)sline_in_rightpos, (void *)sline_reset, (void *)sline_equal,
    (void *)sline_left, (void *)sline_right, (void *)sline_setbuf,
    (void *)sline_init, (void *)sline_backspace, (void *)sline_delete,
    (void *)sline_empty, (void *)sline_avail, (void *)sline_size,
    (void *)sline_putchar, (void *)sline_newdata};
