// witness unit for property C16: the flag-style timer igris/datastruct/stimer.c
// together with an expansion of the STIMER_PERIODIC macro of stimer.h
#include <igris/datastruct/stimer.c>

int igris_verif_stimer_periodic(struct stimer_head *tim, long curtime)
{
    STIMER_PERIODIC(tim, curtime)
    {
        return 1;
    }
    return 0;
}
