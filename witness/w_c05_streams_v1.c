// witness unit of checks/c05_streams.py: the legacy gstuff receiver (gstuff_v1/autorecv.c) with its alphabet and status codes
// materialised as data.  Nothing here is executed; the unit is lowered to IR only.
#include <igris/protocols/gstuff_v1/autorecv.c>

// the legacy alphabet (macros of gstuff_v1/gstuff.h): START (= STOP), STUB, code of START, code of STUB
const char igris_verif_c05s_v1_alphabet[4] = {GSTUFF_START_V1, GSTUFF_STUB_V1, GSTUFF_STUB_START_V1, GSTUFF_STUB_STUB_V1};

// status codes of the legacy receiver API, in the order c05_streams.py names them
const int igris_verif_c05s_v1_status[5] = {GSTUFF_CONTINUE_V1, GSTUFF_NEWPACKAGE_V1, GSTUFF_CRC_ERROR_V1, GSTUFF_OVERFLOW_V1,
                                           GSTUFF_DATA_ERROR_V1};
