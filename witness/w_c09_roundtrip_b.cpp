// witness unit for the round-trip extension of property C09 (checks/c09_roundtrip.py), serializer / binary_protocol /
// storage family: lists nested to depth 3, lists of further arithmetic widths, long double (a scalar with padding
// bytes).  Nothing here is ever executed.
#include <cstring>
#include <string>
#include <type_traits>
#include <vector>

#include <igris/serialize/serialize_archive.h>

#define USE(tag, ...)                                                          \
    std::string igris_verif_w_##tag(const __VA_ARGS__ &v)                      \
    {                                                                          \
        return igris::serialize(v);                                            \
    }                                                                          \
    __VA_ARGS__ igris_verif_r_##tag(const std::string &in)                     \
    {                                                                          \
        return igris::deserialize<__VA_ARGS__>(in);                            \
    }

USE(f80, long double)
USE(vec_f80, std::vector<long double>)
USE(vec_u8, std::vector<uint8_t>)
USE(vec_i64, std::vector<int64_t>)
USE(vec_f32, std::vector<float>)
USE(vec_vec_u16, std::vector<std::vector<uint16_t>>)
USE(vec_vec_vec_u8, std::vector<std::vector<std::vector<uint8_t>>>)
USE(vec_vec_f64, std::vector<std::vector<double>>)
