// witness unit of the element-lifetime rules (checks/c02_life.py): every member of igris::vector<VTr>
// (VTr: probe element, witness/probe.h) including the initializer-list constructors.
#include "probe.h"
#include <igris/container/vector.h>

typedef igris::vector<VTr> VEC;

void igris_verif_life_vec(VEC &v, const VEC &c, const VTr &x, VTr &y, VTr *a, VTr *b, size_t n, int k)
{
    VEC d;
    VEC cp(c);
    VEC mv(static_cast<VEC &&>(v));
    VEC sz(n);
    VEC it(a, (VTr *const)b);
    VEC rg((const VTr *)a, (const VTr *)b);
    const std::initializer_list<VTr> il = {x, x};
    VEC i1(il);
    VEC i2(std::initializer_list<VTr>{x, x});
    v = c;
    v = static_cast<VEC &&>(d);
    (void)v.data();
    (void)c.data();
    (void)c.size();
    (void)c.capacity();
    (void)v.front();
    (void)v.back();
    (void)c.front();
    (void)c.back();
    v.invalidate();
    (void)v.reserve(n);
    v.clear();
    (void)v.begin();
    (void)v.end();
    (void)c.begin();
    (void)c.end();
    v.emplace_back(x);
    v.emplace_back(static_cast<VTr &&>(y));
    v.emplace_back(7);
    v.emplace_back();
    v.push_back(x);
    v.pop_back();
    (void)c.empty();
    (void)v.emplace(v.begin(), x);
    (void)v.emplace(v.begin(), static_cast<VTr &&>(y));
    (void)v.insert((const VTr *)v.begin(), x);
    (void)v.insert(v.begin(), (const VTr *)a, (const VTr *)b);
    (void)v.insert(k, x);
    v.resize(n);
    v.erase(v.begin());
    v.erase(v.begin(), v.end());
    (void)v.at(n);
    (void)v[n];
    (void)c[n];
    (void)c.at(n);
}
