/* witness unit: static inline helpers of igris/util/hexascii.h and access.h */
#include <igris/util/hexascii.h>
void *igris_verif_use_hexascii[] = {
    (void *)hex2half, (void *)half2hex, (void *)hex2byte, (void *)hex_to_uint8, (void *)hex_to_uint16,
    (void *)hex_to_uint32, (void *)hex_to_uint64, (void *)uint8_to_hex, (void *)uint16_to_hex,
    (void *)uint32_to_hex, (void *)uint64_to_hex, (void *)HIHALF, (void *)LOHALF};
/* composition: decode(encode(n)) for one nibble */
uint8_t igris_verif_nibble_roundtrip(uint8_t n) { return hex2half(half2hex(n)); }
