/* witness unit (C19): forces emission of the static inline igris::trim of igris/util/string.h */
#include <igris/util/string.h>
std::string igris_verif_trim(const igris::buffer &view) { return igris::trim(view); }
