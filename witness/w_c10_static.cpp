// compile-time witness for property C10 (built with -fsyntax-only, once per group):
//  C10_SLOTS: every slot of static_object_pool<T, N>::storage is large enough and
//             aligned for T and for the free-list link, and the slots tile 'storage';
//  C10_CHUNK: layout facts of the heap chunk header that malloc/free/realloc rely on.
#include "probe.h"
#include <cstddef>
#include <igris/container/static_object_pool.h>
#include <compat/mem/lin_malloc.h>

#ifdef C10_SLOTS
template <class T, size_t N> struct slots_ok
{
    using P = igris::static_object_pool<T, N>;
    using S = typename P::storage_type;
    static_assert(sizeof(S) >= sizeof(T), "slot smaller than the element");
    static_assert(sizeof(S) >= sizeof(slist_head), "slot smaller than the free-list link");
    static_assert(alignof(S) % alignof(T) == 0, "slot not aligned for the element");
    static_assert(alignof(S) % alignof(slist_head) == 0, "slot not aligned for the free-list link");
    static_assert(sizeof(S) % alignof(S) == 0, "slot stride breaks the slot alignment");
    static_assert(sizeof(decltype(P::storage)) == N * sizeof(S), "slots do not tile the storage");
    static_assert(alignof(P) % alignof(S) == 0, "pool object not aligned for its slots");
    static constexpr bool value = true;
};
struct alignas(32) Wide { char b[40]; };
struct Odd3 { char b[3]; };
struct Odd9 { char b[9]; };
struct Odd17 { short a; char b[15]; };
static_assert(slots_ok<char, 1>::value && slots_ok<int, 3>::value && slots_ok<long double, 2>::value &&
              slots_ok<VTr, 3>::value && slots_ok<Wide, 5>::value && slots_ok<Odd3, 7>::value &&
              slots_ok<Odd9, 4>::value && slots_ok<Odd17, 2>::value && slots_ok<void *, 16>::value, "");
#endif

#ifdef C10_CHUNK
#include <bits/wordsize.h>
static_assert(offsetof(struct __freelist, sz) == 0, "size field is not the chunk header");
static_assert(offsetof(struct __freelist, nx) == sizeof(size_t), "payload does not start right after the size field");
static_assert(sizeof(struct __freelist) - sizeof(size_t) >= sizeof(struct __freelist *),
              "minimum chunk cannot hold the free-list link");
static_assert(sizeof(size_t) % alignof(struct __freelist *) == 0, "payload (= link field) misaligned");
static_assert(__WORDSIZE % sizeof(size_t) == 0, "request granule is not a multiple of the header size");
static_assert((sizeof(struct __freelist) - sizeof(size_t)) % sizeof(size_t) == 0, "minimum chunk breaks the granule");
#endif
