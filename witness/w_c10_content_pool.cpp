// witness unit for the content/identity extension of property C10 (checks/c10_content.py):
// static_object_pool<T, N> for every capacity 0..4 with the probe element VTr (special
// members are external calls on the slot address), with an element whose storage cell is
// padded (sizeof 12, alignof 4 -> 16-byte cells) and with int (create(int) stores a value).
#include "probe.h"
#include <igris/datastruct/pool.h>
#include <igris/container/static_object_pool.h>

struct igris_verif_P12
{
    int a, b, c;
};

template <class T, size_t N> void c10c_use(igris::static_object_pool<T, N> &p, T *obj)
{
    igris::static_object_pool<T, N> local;
    (void)p.create();
    p.destroy(obj);
    (void)p.avail();
}

template <class T> void c10c_use_all(T *obj)
{
    igris::static_object_pool<T, 0> p0;
    igris::static_object_pool<T, 1> p1;
    igris::static_object_pool<T, 2> p2;
    igris::static_object_pool<T, 3> p3;
    igris::static_object_pool<T, 4> p4;
    c10c_use<T, 0>(p0, obj);
    c10c_use<T, 1>(p1, obj);
    c10c_use<T, 2>(p2, obj);
    c10c_use<T, 3>(p3, obj);
    c10c_use<T, 4>(p4, obj);
}

void igris_verif_c10c_vtr(VTr *obj, const VTr &x, igris::static_object_pool<VTr, 2> &p2,
                          igris::static_object_pool<VTr, 4> &p4)
{
    c10c_use_all<VTr>(obj);
    (void)p2.create(x);
    (void)p2.create(5);
    (void)p4.create(x);
}

void igris_verif_c10c_p12(igris_verif_P12 *obj) { c10c_use_all<igris_verif_P12>(obj); }

void igris_verif_c10c_int(int *obj, int v, igris::static_object_pool<int, 2> &p2,
                          igris::static_object_pool<int, 3> &p3)
{
    c10c_use_all<int>(obj);
    (void)p2.create(v);
    (void)p3.create(v);
}
