// witness unit (std_portable.h twins): igris::static_vector<int,4>, static_vector<VTr,4>, static_string<4>
#include "probe.h"
#include <igris/container/std_portable.h>


template <class T> void use_sv(igris::static_vector<T, 4> &v, const igris::static_vector<T, 4> &c, const T &x,
                               const T *b, const T *e, size_t n)
{
    igris::static_vector<T, 4> d;
    igris::static_vector<T, 4> cp(c);
    igris::static_vector<T, 4> mv(static_cast<igris::static_vector<T, 4> &&>(v));
    v = c;
    v = static_cast<igris::static_vector<T, 4> &&>(d);
    
    v.emplace_back(x);
    v.push_back(x);
    (void)v[n];
    (void)c[n];
    (void)v.data();
    (void)c.data();
    (void)c.room();
    (void)c.size();
    (void)v.begin();
    (void)v.end();
    (void)c.begin();
    (void)c.end();
    (void)v.back();
    (void)c.back();
    (void)v.front();
    (void)c.front();
    
    v.resize(n);
    v.clear();
}

void igris_verif_use_sv_int(igris::static_vector<int, 4> &v, const igris::static_vector<int, 4> &c, const int &x,
                            const int *b, const int *e, size_t n)
{
    use_sv<int>(v, c, x, b, e, n);
    
}

void igris_verif_use_sv_tr(igris::static_vector<VTr, 4> &v, const igris::static_vector<VTr, 4> &c, const VTr &x,
                           const VTr *b, const VTr *e, size_t n)
{
    use_sv<VTr>(v, c, x, b, e, n);
    
}

void igris_verif_use_ss(igris::static_string<4> &s, const igris::static_string<4> &c, const char *z, char ch)
{
    igris::static_string<4> d;
    igris::static_string<4> f(z);
    igris::static_string<4> g(z, 3);
    (void)s.data();
    s.clear();
    s += ch;
    (void)s[1];
    (void)c[1];
    (void)s.room();
    (void)s.size();
    (void)s.begin();
    (void)s.end();
    s.push_back(ch);
    (void)c.c_str();
}
