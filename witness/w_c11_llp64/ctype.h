/* C11 witness support (data model LLP64: long = 32 bit, intmax_t = 64 bit, built freestanding):
 * declarations only, so that compat/libc/{stdlib,inttypes}/strto*.c can be lowered for a target
 * whose long is narrower than intmax_t.  Nothing here is executed. */
#ifndef W_C11_LLP64_CTYPE_H
#define W_C11_LLP64_CTYPE_H
int isspace(int c);
int isdigit(int c);
int isalpha(int c);
int isupper(int c);
int islower(int c);
int isxdigit(int c);
int isalnum(int c);
#endif
