/* C11 witness support (LLP64 lowering), see ctype.h */
#ifndef W_C11_LLP64_STDLIB_H
#define W_C11_LLP64_STDLIB_H
#include <stddef.h>
#include <stdint.h>
long strtol(const char *nptr, char **endptr, int base);
unsigned long strtoul(const char *nptr, char **endptr, int base);
long long strtoll(const char *nptr, char **endptr, int base);
unsigned long long strtoull(const char *nptr, char **endptr, int base);
long atol(const char *nptr);
int atoi(const char *nptr);
#endif
