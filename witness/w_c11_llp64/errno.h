/* C11 witness support (LLP64 lowering), see ctype.h */
#ifndef W_C11_LLP64_ERRNO_H
#define W_C11_LLP64_ERRNO_H
int *__errno_location(void);
#define errno (*__errno_location())
#define EINVAL 22
#define ERANGE 34
#endif
