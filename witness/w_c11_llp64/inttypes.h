/* C11 witness support (LLP64 lowering), see ctype.h */
#ifndef W_C11_LLP64_INTTYPES_H
#define W_C11_LLP64_INTTYPES_H
#include <stdint.h>
intmax_t strtoimax(const char *restrict nptr, char **restrict endptr, int base);
uintmax_t strtoumax(const char *restrict nptr, char **restrict endptr, int base);
#endif
