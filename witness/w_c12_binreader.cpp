// witness unit for property C12 (float <-> text): instantiates the inline ASCII readers of
// igris::binreader, which hand the stream cursor to igris_atof32 as both the text and the end pointer.
#include <igris/binreader.h>

int igris_verif_use_c12_binreader(igris::binreader &r, float *f)
{
    return r.read_ascii_decimal_float(f);
}
