/* witness unit (C19): forces emission of the static inline helpers of igris/datastruct/argvc.h */
#include <igris/datastruct/argvc.h>
void *igris_verif_use_argvc[] = {(void *)argvc_length_of_first, (void *)argvc_internal_split,
                                 (void *)argvc_internal_split_n};
