// witness unit of checks/c04_roundtrip.py: the configurable gstuff codec as ONE module - the encoders and the receiver of
// igris/protocols/gstuff.cpp together with the header-only pieces the round trip observes (the two shipped marker
// alphabets, the receiver's constructor, size() and cstr()).  Nothing here is executed; the unit is lowered to IR only.
#include <new>
#include <igris/protocols/gstuff.cpp>

// the status codes of the receiver API the round trip talks about
extern "C" const int igris_verif_rt_status[3] = {GSTUFF_CONTINUE, GSTUFF_NEWPACKAGE, GSTUFF_OVERFLOW};

extern "C"
{
    void igris_verif_rt_ctx_default(gstuff_context *out) { *out = gstuff_context(); }
    void igris_verif_rt_ctx_v0(gstuff_context *out) { *out = gstuff_context_v0(); }
    void igris_verif_rt_recv(void *mem, const gstuff_context *ctx) { new (mem) gstuff_autorecv(*ctx); }
    size_t igris_verif_rt_size(gstuff_autorecv *r) { return r->size(); }
    const char *igris_verif_rt_cstr(gstuff_autorecv *r) { return r->cstr(); }
}
