// witness unit for property C10 (fixed-block pools): forces emission of the
// static inline C pool primitives and instantiates igris::pool and
// static_object_pool<T, 3> for an int element and for the probe type VTr
// (special members are external calls on the slot address).
#include "probe.h"
#include <igris/datastruct/pool.h>
#include <igris/container/pool.h>
#include <igris/container/static_object_pool.h>

void *igris_verif_use_c10_pool[] = {
    (void *)pool_init, (void *)pool_engage, (void *)pool_alloc, (void *)pool_free,
    (void *)pool_avail, (void *)pool_in_freelist};

void igris_verif_use_pool(igris::pool &p, const igris::pool &c, void *zone, size_t size, size_t elsize, int i,
                          void *ptr)
{
    igris::pool d;
    igris::pool e(zone, size, elsize);
    p.init(zone, size, elsize);
    (void)c.size();
    (void)c.room();
    (void)p.cell_is_allocated(i);
    (void)p.cell(i);
    (void)p.get();
    p.put(ptr);
    (void)c.element_size();
    (void)c.avail();
    igris::pool::unlinked_iterator it = c.begin();
    (void)(it != c.end());
    (void)(it == c.end());
    ++it;
    (void)*it;
}

template <class T> void use_sop(igris::static_object_pool<T, 3> &p, T *obj)
{
    (void)p.freelist();
    (void)p.create();
    p.destroy(obj);
    (void)p.avail();
}

void igris_verif_use_sop_int(igris::static_object_pool<int, 3> &p, int *obj)
{
    igris::static_object_pool<int, 3> local;
    use_sop<int>(p, obj);
    (void)p.create(7);
}

void igris_verif_use_sop_tr(igris::static_object_pool<VTr, 3> &p, VTr *obj, const VTr &x)
{
    igris::static_object_pool<VTr, 3> local;
    use_sop<VTr>(p, obj);
    (void)p.create(x);
    (void)p.create(5);
}

// element whose storage cell is padded: sizeof 12, alignof 4 -> elsize() 12, sizeof(storage_type) 16
struct igris_verif_P12
{
    int a, b, c;
};

void igris_verif_use_sop_p12(igris::static_object_pool<igris_verif_P12, 3> &p, igris_verif_P12 *obj)
{
    igris::static_object_pool<igris_verif_P12, 3> local;
    use_sop<igris_verif_P12>(p, obj);
}
