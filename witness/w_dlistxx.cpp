// witness unit: igris::dlist_node / dlist_base / dlist<T,&T::lnk> / slist<T,&T::lnk>
#include <igris/container/dlist.h>
#include <igris/container/slist.h>
#include <igris/container/dlist.cpp> // dlist_node::unlink is defined out of line

struct VItem
{
    int key = 0;
    igris::dlist_node lnk;
    slist_head slnk;
};
using VList = igris::dlist<VItem, &VItem::lnk>;
using VSList = igris::slist<VItem, &VItem::slnk>;

void igris_verif_use_dlistxx(VList &l, VList &o, VItem &a, VItem &b, igris::dlist_node *n)
{
    igris::dlist_node fresh;
    (void)n->next_node();
    (void)n->prev_node();
    (void)n->empty();
    n->move_prev_than(&a.lnk);
    n->move_next_than(&a.lnk);
    (void)n->is_linked();
    (void)n->is_unlinked();
    n->unlink();
    (void)n->circular_size();
    (void)n->reverse_circular_size();
    l.unlink_and_move_all_nodes_from_other(static_cast<igris::dlist_base &&>(o));
    (void)l.first_node();
    (void)l.last_node();
    (void)l.size();
    l.pop_node(n);
    l.pop_front();
    l.pop_back();
    (void)l.empty();
    l.igris::dlist_base::move_next(n, &a.lnk);
    l.igris::dlist_base::move_prev(n, &a.lnk);
    l.igris::dlist_base::move_front(*n);
    l.igris::dlist_base::move_back(*n);
    l.clear();
    (void)l.is_correct();
    (void)l.first();
    (void)l.front();
    (void)l.back();
    l.move_next(a, n);
    l.move_prev(a, n);
    l.move_next(a, b);
    l.move_prev(a, b);
    l.move_front(a);
    l.move_back(a);
    l.pop(a);
    int s = 0;
    for (auto it = l.begin(); it != l.end(); ++it)
        s += it->key;
    for (auto it = l.rbegin(); it != l.rend(); ++it)
        s += it->key;
    auto it = l.begin();
    it++;
    it--;
    --it;
    (void)(it == l.end());
    l.move_next(a, it);
    l.move_prev(a, it);
    a.key = s;
    VList d;
}

void igris_verif_use_slistxx(VSList &l, VItem &a)
{
    VSList d;
    (void)l.empty();
    l.add_first(a);
    l.move_front(a);
}
