// witness unit of checks/c14_sstr.py: igris::static_string<SSTR_N> (static_string.h, or the std_portable.h twin with
// -DSSTR_TWIN) and igris::static_vector<int, SSTR_N>.  Instantiation only: every member is used once so that clang
// emits it; the thin extern "C" wrappers stand for the operations the class leaves to the compiler (copy construction
// and assignment of the trivially copyable static_string) and for the free conversion functions.
//   -DSSTR_INDEX   operator[] of static_string is instantiated as well  } members that are probed with -fsyntax-only first:
//   -DSSTR_FIND    find of the twin is instantiated as well             } c14_sstr.py reports a member that does not compile
#ifdef SSTR_TWIN
#include <igris/container/std_portable.h>
#else
#include <igris/container/static_string.h>
#include <igris/container/static_vector.h>
#endif
#include <new>

#ifndef SSTR_N
#define SSTR_N 4
#endif

using SS = igris::static_string<SSTR_N>;
using SV = igris::static_vector<int, SSTR_N>;

void igris_verif_c14_sstr_use(SS &s, const SS &c, const char *z, char ch, unsigned long n)
{
    SS d;
    SS f(z);
    (void)s.room();
    (void)s.size();
    (void)s.begin();
    (void)s.end();
    s.push_back(ch);
    (void)c.c_str();
#ifdef SSTR_INDEX
    (void)s[n];
    (void)c[n];
#endif
#ifdef SSTR_TWIN
    SS g(z, n);
    (void)s.data();
    s.clear();
    s += ch;
#ifdef SSTR_FIND
    (void)c.find(z, n);
#endif
    (void)s.template split<2, 2>(ch);
    (void)s.template split<3, SSTR_N>(ch);
#endif
}

extern "C"
{
    // copy construction / copy assignment of static_string (implicitly defined today)
    void w_ss_copy_construct(void *raw, const SS &other)
    {
        new (raw) SS(other);
    }
    void w_ss_copy_assign(SS &self, const SS &other)
    {
        self = other;
    }
#ifdef SSTR_TWIN
    int w_ss_stoi(const SS &s)
    {
        return igris::stoi(s);
    }
    long w_ss_stol(const SS &s)
    {
        return igris::stol(s);
    }
    long long w_ss_stoll(const SS &s)
    {
        return igris::stoll(s);
    }
    double w_ss_stod(const SS &s)
    {
        return igris::stod(s);
    }
#endif
}

void igris_verif_c14_sstr_use_sv(SV &v, const SV &c, const int &x, int y, const int *b, const int *e, unsigned long n)
{
    SV d;
    SV cp(c);
    SV mv(static_cast<SV &&>(v));
    v = c;
    v = static_cast<SV &&>(d);
    v.emplace_back(x);
    v.emplace_back(static_cast<int &&>(y));
    v.emplace_back();
    v.push_back(x);
    (void)v[n];
    (void)c[n];
    (void)v.data();
    (void)c.data();
    (void)c.room();
    (void)c.size();
    (void)v.begin();
    (void)v.end();
    (void)c.begin();
    (void)c.end();
    (void)v.back();
    (void)c.back();
    (void)v.front();
    (void)c.front();
    v.resize(n);
    v.clear();
#ifndef SSTR_TWIN
    SV rng(b, e);
    SV il{1, 2, 3};
    v.erase(v.begin(), v.end());
#endif
}
