// witness unit for property C16: igris::timer_manager_basic / timer_head_basic
// instantiated (a) with the library's own default spec timer_spec<int64_t>
// (igris::timer_manager) and (b) with a 32 bit unsigned tick counter, the
// embedded case in which the time base really wraps around.
#include <igris/time/timer_manager.h>
#include <igris/container/dlist.cpp> // dlist_node::unlink is defined out of line

#include <cstdint>

using S64 = igris::timer_spec<int64_t>;
using U32 = igris::timer_spec<uint32_t>;

static_assert(sizeof(S64::difftime_t) == 8, "difftime of int64 time");
static_assert(sizeof(U32::difftime_t) == 4, "difftime of uint32 time");

template <class Spec> struct VTimer : public igris::timer_head_basic<Spec>
{
    int fired = 0;
    void execute() override
    {
        ++fired;
    }
};

template <class Spec>
static void use(igris::timer_manager_basic<Spec> &m,
                igris::timer_head_basic<Spec> &t,
                typename Spec::time_t now,
                typename Spec::difftime_t d)
{
    (void)t.is_planned();
    t.unplan();
    (void)t.finish();
    (void)t.check(now);
    t.set_start(now);
    t.set_interval(d);
    t.shift();
    m.plan(t);
    m.plan(t, now, d);
    m.exec(now);
    (void)m.empty();
    (void)m.minimal_interval(now);
}

void igris_verif_use_timer64(igris::timer_manager_basic<S64> &m, VTimer<S64> &t, int64_t now)
{
    use<S64>(m, t, now, now);
    igris::timer_manager_basic<S64> fresh;
    VTimer<S64> local;
}

void igris_verif_use_timer32(igris::timer_manager_basic<U32> &m, VTimer<U32> &t, uint32_t now)
{
    use<U32>(m, t, now, now);
    igris::timer_manager_basic<U32> fresh;
    VTimer<U32> local;
}

// igris::timer<Args...> (timer_basic): execute() forwards to the stored delegate
static void igris_verif_cb(int) {}
void igris_verif_use_timer_basic(igris::timer_manager &m)
{
    igris::timer<int> t(igris::make_delegate(igris_verif_cb), 7);
    m.plan(t, 0, 10);
    t.execute();
}
