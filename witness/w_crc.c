/* witness unit: forces emission of the static inline streaming CRC-8 of igris/util/crc.h */
#include <igris/util/crc.h>
void *igris_verif_use_crc[] = {(void *)igris_strmcrc8};
