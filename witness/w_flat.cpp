// witness unit: igris::flat_map<int,int> and igris::flat_set<int>
#include <igris/container/flat_map.h>
#include <igris/container/flat_set.h>

void igris_verif_use_flat_map(igris::flat_map<int, int> &m, const igris::flat_map<int, int> &c, int k)
{
    (void)m[k];
    (void)c[k];
    (void)m.at(k);
    (void)c.at(k);
    (void)m.find(k);
    (void)c.find(k);
    (void)c.count(k);
    (void)m.emplace(k, k);
    (void)m.insert(std::pair<int, int>(k, k));
    (void)c.size();
    (void)c.empty();
    m.clear();
}

void igris_verif_use_flat_set(igris::flat_set<int> &s, const igris::flat_set<int> &c, int k)
{
    s.insert(k);
    (void)c.count(k);
    (void)c.size();
    s.clear();
}
