// witness unit of checks/c05.py: the status codes of the configurable gstuff receiver as data, so that the clauses of
// R-RECV name a status by its macro and not by its number.  Nothing here is executed; the unit is lowered to IR only.
#include <igris/protocols/gstuff.h>

extern "C" const int igris_verif_c05_status[8] = {GSTUFF_CONTINUE,  GSTUFF_NEWPACKAGE, GSTUFF_FORCE_RESTART,  GSTUFF_GARBAGE,
                                                 GSTUFF_CRC_ERROR, GSTUFF_OVERFLOW,   GSTUFF_STUFFING_ERROR, GSTUFF_ALGORITHM_ERROR};
