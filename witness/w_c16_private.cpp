// compile-time witness for property C16 (-fsyntax-only): who may touch the
// list link / the pending list / the time fields of a timer.
// The existence of the members named here (lnk, timer_list, _start,
// _interval) is established separately from the debug info of
// w_c16_timer.cpp; this unit decides that they are not accessible to code
// outside timer_head_basic / timer_manager_basic.
#include <igris/time/timer_manager.h>

#include <type_traits>

using S = igris::timer_spec<int64_t>;
using H = igris::timer_head_basic<S>;
using M = igris::timer_manager_basic<S>;

template <class T>
concept touches_lnk = requires(T &t) { t.lnk; };
template <class T>
concept touches_start = requires(T &t) { t._start; };
template <class T>
concept touches_interval = requires(T &t) { t._interval; };
template <class T>
concept touches_list = requires(T &t) { t.timer_list; };
template <class T>
concept has_is_planned = requires(T &t) { t.is_planned(); };
template <class T>
concept has_exec = requires(T &t) { t.exec(0); };

// positive controls: the concept mechanism sees public members
static_assert(has_is_planned<H>, "control");
static_assert(has_exec<M>, "control");

// a timer can be linked into the pending list only by the manager (its only friend)
static_assert(!touches_lnk<H>, "timer_head_basic::lnk must stay private");
static_assert(!touches_lnk<igris::timer<int>>, "lnk must not be reachable through a derived timer");
static_assert(!touches_list<M>, "timer_manager_basic::timer_list must stay private");
// deadline fields change only through set_start/set_interval/shift
static_assert(!touches_start<H>, "timer_head_basic::_start must stay private");
static_assert(!touches_interval<H>, "timer_head_basic::_interval must stay private");

// a list node (and therefore a timer) cannot be copied: a copy would alias the links
static_assert(!std::is_copy_constructible_v<igris::timer<int>>, "timers are not copyable");
static_assert(!std::is_copy_assignable_v<igris::dlist_node>, "list nodes are not assignable");

// the library's public aliases are the int64 instantiation analysed in w_c16_timer.cpp
static_assert(std::is_same_v<igris::timer_manager, M>, "timer_manager alias");
static_assert(std::is_same_v<igris::timer_head, H>, "timer_head alias");
static_assert(std::is_same_v<S::difftime_t, int64_t>, "difftime_t of the default spec");
// with a 32 bit unsigned tick counter the difference type is the same unsigned type, so that
// `now - start >= interval` is evaluated modulo 2^32 (wrap-safe)
static_assert(std::is_same_v<igris::timer_spec<uint32_t>::difftime_t, uint32_t>, "difftime_t of uint32 ticks");
