/* C07: force emission of the header-only vt100_left (igris/defs/vt100.h) */
#include <igris/defs/vt100.h>

int igris_verif_vt100_left(char *buf, int arg)
{
    return vt100_left(buf, arg);
}
