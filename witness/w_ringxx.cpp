// witness unit: implicitly instantiates the members of igris::ring<int>, igris::ring<char>
// and igris::cyclic_buffer<int> (explicit instantiation is impossible: ring<int>::read/write
// do not compile for T != char)
#include <igris/container/ring.h>
#include <igris/container/cyclic_buffer.h>

void igris_verif_use_ring(igris::ring<int> &r, int i, const int &v, size_t n)
{
    igris::ring<int> a(i);
    r.resize(n);
    r.reset();
    (void)r.empty();
    r.push(v);
    r.emplace(i);
    r.pop();
    r.clear();
    r.move_tail_one();
    r.move_head_one();
    (void)r.avail();
    (void)r.room();
    (void)r.size();
    (void)r.get(i);
    (void)r.tail();
    (void)r.last();
    (void)r.index_of(&r.tail());
    (void)r.tail_index();
    (void)r.head_index();
    r.set_last_index(i);
    (void)r.fixup_index(i);
    (void)r.head_place();
    (void)r.distance(i, i);
    (void)r.get_last(i, i, true);
}

void igris_verif_use_ringc(igris::ring<char> &r, char *b, const char *cb, size_t n)
{
    (void)r.read(b, n);
    (void)r.write(cb, n);
}

void igris_verif_use_cyclic(igris::cyclic_buffer<int> &c, const igris::cyclic_buffer<int> &cc, int i, size_t n)
{
    igris::cyclic_buffer<int> a(n);
    (void)c.size();
    (void)c.push(i);
    (void)c[i];
    (void)cc[i];
    c.resize(n);
}

// members marked __ALWAYS_INLINE never get a body of their own: thin wrappers
// (analysed with the same contract on the object parameter)
int &igris_verif_ring_last(igris::ring<int> &r) { return r.last(); }
int &igris_verif_ring_tail(igris::ring<int> &r) { return r.tail(); }
bool igris_verif_ring_empty(igris::ring<int> &r) { return r.empty(); }
void igris_verif_ring_move_tail_one(igris::ring<int> &r) { r.move_tail_one(); }
