// witness unit of checks/c02_flat.py: the members of igris::flat_map<int,int> and igris::flat_set<int> whose CONTENT
// clauses (values and positions on small concrete sizes with symbolic keys) are decided.
//
// Members that exist today are used unconditionally (a vanished one is a compile error = analysis broken).  Members a
// std::map / std::set stand-in may grow later (erase, contains, lower_bound, upper_bound, find on the set) are used
// under a requires-expression, so that their clauses start to be decided as soon as they exist.
#include <igris/container/flat_map.h>
#include <igris/container/flat_set.h>

using FM = igris::flat_map<int, int>;
using FS = igris::flat_set<int>;

template <class M> void c02_flat_optional_map(M &m, const M &c, int k)
{
    if constexpr (requires { m.erase(k); })
        (void)m.erase(k);
    if constexpr (requires { m.erase(m.begin()); })
        (void)m.erase(m.begin());
    if constexpr (requires { c.contains(k); })
        (void)c.contains(k);
    if constexpr (requires { m.lower_bound(k); })
        (void)m.lower_bound(k);
    if constexpr (requires { m.upper_bound(k); })
        (void)m.upper_bound(k);
    if constexpr (requires { c.lower_bound(k); })
        (void)c.lower_bound(k);
    if constexpr (requires { c.upper_bound(k); })
        (void)c.upper_bound(k);
}

template <class S> void c02_flat_optional_set(S &s, const S &c, S &o, int k)
{
    if constexpr (requires { s.erase(k); })
        (void)s.erase(k);
    if constexpr (requires { s.erase(s.begin()); })
        (void)s.erase(s.begin());
    if constexpr (requires { c.contains(k); })
        (void)c.contains(k);
    if constexpr (requires { c.find(k); })
        (void)c.find(k);
    if constexpr (requires { s.find(k); })
        (void)s.find(k);
    if constexpr (requires { c.lower_bound(k); })
        (void)c.lower_bound(k);
    if constexpr (requires { c.upper_bound(k); })
        (void)c.upper_bound(k);
    if constexpr (requires { c.empty(); })
        (void)c.empty();
    if constexpr (requires { c.end(); })
        (void)c.end();
    if constexpr (requires { s.swap(o); })
        s.swap(o);
}

void igris_verif_c02_flat_map(FM &m, const FM &c, FM &o, int k, int v,
                              const std::initializer_list<std::pair<int, int>> &il)
{
    (void)m[k];
    (void)c[k];
    (void)m.at(k);
    (void)c.at(k);
    (void)m.find(k);
    (void)c.find(k);
    (void)c.count(k);
    (void)m.emplace(k, v);
    (void)m.insert(std::pair<int, int>(k, v));
    (void)c.size();
    (void)c.empty();
    (void)m.begin();
    (void)m.end();
    (void)c.begin();
    (void)c.end();
    m.swap(o);
    m.clear();
    FM x(il);
    FM y(c);
    o = c;
    (void)x.size();
    (void)y.size();
    c02_flat_optional_map(m, c, k);
}

void igris_verif_c02_flat_set(FS &s, const FS &c, FS &o, int k)
{
    s.insert(k);
    (void)c.count(k);
    (void)c.size();
    (void)s.begin();
    (void)s.end();
    (void)c.begin();
    s.clear();
    FS y(c);
    o = c;
    (void)y.size();
    c02_flat_optional_set(s, c, o, k);
}
