// witness unit for property C20: implicitly instantiates the header-only synchronisation
// classes so that their members appear in LLVM IR:
//   igris::event (wait, timed wait, signal, reset, isset)        igris/syncxx/event.h
//   igris::safe_queue<int>, igris::safe_queue<VTr>               igris/event/safe_queue.h
//   igris::semaphore (C++ wrapper of sem_t)                      igris/sync/semaphore.h
//   igris::syslock, igris::syslock_guard                         igris/sync/syslock.h
// Nothing here is ever executed; the functions only force emission.
#include <chrono>
#include <igris/event/safe_queue.h>
#include <igris/sync/semaphore.h>
#include <igris/sync/syslock.h>
#include <igris/syncxx/event.h>

#include "probe.h"

bool igris_verif_use_event(igris::event &e, const igris::event &ce)
{
    ce.wait();
    bool a = ce.wait(std::chrono::milliseconds(5));
    bool b = e.signal();
    bool c = e.reset();
    bool d = ce.isset();
    return a ^ b ^ c ^ d;
}

size_t igris_verif_use_safe_queue_int(int v)
{
    igris::safe_queue<int> q;
    igris::safe_queue<int> q2{1, 2, 3};
    q.push(v);
    int x = q.pop();
    return q.size() + q2.size() + (size_t)x;
}

size_t igris_verif_use_safe_queue_obj(const VTr &v)
{
    igris::safe_queue<VTr> q;
    q.push(v);
    VTr x = q.pop();
    return q.size() + (size_t)x.payload;
}

int igris_verif_use_semaphore()
{
    igris::semaphore s(1);
    s.wait();
    s.trywait();
    s.post();
    return s.getvalue();
}

void igris_verif_use_syslock(igris::syslock &l)
{
    l.lock();
    l.unlock();
    igris::syslock_guard g;
}
