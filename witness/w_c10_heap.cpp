// witness unit for property C10 (bare-metal heap): compat/mem/lin_malloc.cpp and
// lin_realloc.cpp in ONE module, so that the abstract interpreter follows
// realloc's calls of malloc()/free().  The sources are parsed hosted (they
// include <memory>/<mutex>); glibc declares malloc/free/realloc with a
// non-throwing exception specification which the definitions do not repeat, so
// the annotation macros are emptied before any system header is seen.
#include <sys/cdefs.h>
#undef __THROW
#define __THROW
#undef __THROWNL
#define __THROWNL
#undef __NTH
#define __NTH(fct) fct
#undef __NTHNL
#define __NTHNL(fct) fct
#include <compat/mem/lin_malloc.cpp>
#include <compat/mem/lin_realloc.cpp>
