// witness unit: igris::readline (C++ twin of igris/shell/readline.h)
#include <igris/shell/readlinexx.h>
void igris_verif_use_readlinexx(igris::readline &r, char c, char *buf, size_t n)
{
    r.init(n, n);
    (void)r.lastsize();
    (void)r.line();
    r.newline_reset();
    (void)r.newdata(c);
    (void)r.linecpy(buf, n);
    (void)r.history_up();
    (void)r.history_down();
}
