// Probe element type for container witnesses: every special member is declared
// but not defined, so that in LLVM IR each construction, destruction and
// assignment of an element is a visible external call on the slot address.
#ifndef IGRIS_VERIF_PROBE_H
#define IGRIS_VERIF_PROBE_H
struct VTr
{
    VTr();
    VTr(int);
    VTr(const VTr &);
    VTr(VTr &&);
    VTr &operator=(const VTr &);
    VTr &operator=(VTr &&);
    ~VTr();
    long payload;
};
#endif
