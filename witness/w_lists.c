/* witness unit: C intrusive lists (dlist, slist, hlist): forces emission of the
   static inline primitives and wraps each traversal macro in a function */
#include <igris/datastruct/dlist.h>
#include <igris/datastruct/slist.h>
#include <igris/datastruct/hlist.h>

struct vitem
{
    int key;
    struct dlist_head lnk;
    struct slist_head slnk;
};

void *igris_verif_use_lists[] = {
    (void *)dlist_is_linked, (void *)dlist_init, (void *)__dlist_add, (void *)dlist_add_next,
    (void *)dlist_add_prev, (void *)__dlist_del, (void *)dlist_del, (void *)dlist_del_init,
    (void *)dlist_move, (void *)dlist_move_tail, (void *)dlist_empty, (void *)dlist_insert_instead,
    (void *)dlist_in, (void *)dlist_check, (void *)dlist_check_reversed, (void *)dlist_size,
    (void *)slist_init, (void *)slist_empty, (void *)slist_add, (void *)slist_pop_first,
    (void *)slist_size, (void *)slist_in,
    (void *)hlist_head_init, (void *)hlist_node_init, (void *)hlist_add_next, (void *)hlist_del};

int igris_verif_dlist_for_each(struct dlist_head *head)
{
    struct dlist_head *it;
    int n = 0;
    dlist_for_each(it, head) n++;
    return n;
}
int igris_verif_dlist_for_each_reverse(struct dlist_head *head)
{
    struct dlist_head *it;
    int n = 0;
    dlist_for_each_reverse(it, head) n++;
    return n;
}
int igris_verif_dlist_for_each_safe(struct dlist_head *head)
{
    struct dlist_head *it, *nx;
    int n = 0;
    dlist_for_each_safe(it, nx, head) n++;
    return n;
}
int igris_verif_dlist_for_each_entry(struct dlist_head *head)
{
    struct vitem *pos;
    int n = 0;
    dlist_for_each_entry(pos, head, lnk) n += pos->key;
    return n;
}
int igris_verif_dlist_for_each_entry_reverse(struct dlist_head *head)
{
    struct vitem *pos;
    int n = 0;
    dlist_for_each_entry_reverse(pos, head, lnk) n += pos->key;
    return n;
}
int igris_verif_dlist_for_each_entry_safe(struct dlist_head *head)
{
    struct vitem *pos, *nx;
    int n = 0;
    dlist_for_each_entry_safe(pos, nx, head, lnk) n += pos->key;
    return n;
}
#define VCMP(a, b) ((a)->key < (b)->key)
void igris_verif_dlist_move_sorted(struct vitem *added, struct dlist_head *head)
{
    dlist_move_sorted(added, head, lnk, VCMP);
}
int igris_verif_slist_for_each_entry(struct slist_head *head)
{
    struct vitem *pos;
    int n = 0;
    slist_for_each_entry(pos, head, slnk) n += pos->key;
    return n;
}
int igris_verif_hlist_for_each(struct hlist_head *head)
{
    struct hlist_node *pos;
    int n = 0;
    hlist_for_each(pos, head) n++;
    return n;
}
