// witness unit of checks/c05_streams.py: the configurable gstuff receiver of igris/protocols/gstuff.cpp together with the
// header-only pieces the stream analysis observes (the two shipped marker alphabets, the receiver's constructor, size()
// and cstr()) and the status codes the property names.  Nothing here is executed; the unit is lowered to IR only.
#include <new>
#include <igris/protocols/gstuff.cpp>

// status codes of the receiver API, in the order c05_streams.py names them
extern "C" const int igris_verif_c05s_status[7] = {GSTUFF_CONTINUE,  GSTUFF_NEWPACKAGE, GSTUFF_FORCE_RESTART, GSTUFF_GARBAGE,
                                                  GSTUFF_CRC_ERROR, GSTUFF_OVERFLOW,   GSTUFF_STUFFING_ERROR};

extern "C"
{
    void igris_verif_c05s_ctx_default(gstuff_context *out) { *out = gstuff_context(); }
    void igris_verif_c05s_ctx_v0(gstuff_context *out) { *out = gstuff_context_v0(); }
    void igris_verif_c05s_recv(void *mem, const gstuff_context *ctx) { new (mem) gstuff_autorecv(*ctx); }
    size_t igris_verif_c05s_size(gstuff_autorecv *r) { return r->size(); }
    const char *igris_verif_c05s_cstr(gstuff_autorecv *r) { return r->cstr(); }
}
