// witness unit of the element-lifetime / element-identity rules of checks/c03_content.py: members of
// igris::ring<VTr> and igris::cyclic_buffer<VTr> (VTr: probe element, witness/probe.h - every special member is an
// external call, so each construction, destruction and assignment of an element is visible in the IR)
#include "probe.h"
#include <igris/container/ring.h>
#include <igris/container/cyclic_buffer.h>

typedef igris::ring<VTr> RING;
typedef igris::cyclic_buffer<VTr> CYC;

void igris_verif_ringlife(RING &r, const VTr &x, int i, size_t n)
{
    RING a(i);
    RING d;
    r.resize(n);
    r.reset();
    r.push(x);
    r.emplace(i);
    r.emplace(x);
    r.pop();
    r.clear();
    (void)r.get(i);
    (void)r.head_place();
}

void igris_verif_cyclife(CYC &c, const CYC &cc, const VTr &x, int i, size_t n)
{
    CYC a(n);
    (void)c.push(x);
    (void)c[i];
    (void)cc[i];
    c.resize(n);
}

// members marked __ALWAYS_INLINE never get a body of their own: thin wrappers
VTr &igris_verif_ringlife_tail(RING &r) { return r.tail(); }
VTr &igris_verif_ringlife_last(RING &r) { return r.last(); }
