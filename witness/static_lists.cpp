// compile-time witnesses for C01 (built with -fsyntax-only; a failing static_assert fails the rule)
#include <igris/container/dlist.h>
#include <type_traits>
static_assert(!std::is_copy_constructible<igris::dlist_node>::value, "dlist_node must not be copy constructible");
static_assert(!std::is_copy_assignable<igris::dlist_node>::value, "dlist_node must not be copy assignable");
static_assert(sizeof(igris::dlist_base) == sizeof(igris::dlist_node), "dlist_base is exactly its head node");
