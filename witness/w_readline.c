/* witness unit: igris/shell/readline.h (static inline C API) and vt100_left */
#include <igris/shell/readline.h>
#include <igris/defs/vt100.h>
void *igris_verif_use_readline[] = {
    (void *)readline_init, (void *)readline_history_init, (void *)readline_newline_reset,
    (void *)readline_history_pointer, (void *)readline_current_history_pointer,
    (void *)_readline_push_line_to_history, (void *)readline_push_line_to_history,
    (void *)readline_push_current_line_to_history, (void *)readline_load_history_line,
    (void *)readline_history_up, (void *)readline_is_not_same_as_last, (void *)readline_history_down,
    (void *)readline_putchar, (void *)readline_linecpy, (void *)vt100_left};
