// witness unit for property C09 (serializer / binary_protocol / storage family,
// "archive20"): instantiates igris::serialize<binary_protocol>(const T&) and
// igris::deserialize<T>(const std::string&) for arithmetic types and lists, and
// the bounded storage reader.  Nothing here is ever executed.
#include <cstring>
#include <string>
#include <type_traits>
#include <vector>

#include <igris/serialize/serialize_archive.h>

#define USE(tag, ...)                                                          \
    std::string igris_verif_w_##tag(const __VA_ARGS__ &v)                      \
    {                                                                          \
        return igris::serialize(v);                                            \
    }                                                                          \
    __VA_ARGS__ igris_verif_r_##tag(const std::string &in)                     \
    {                                                                          \
        return igris::deserialize<__VA_ARGS__>(in);                            \
    }

USE(i8, int8_t)
USE(u8, uint8_t)
USE(i16, int16_t)
USE(u16, uint16_t)
USE(i32, int32_t)
USE(u32, uint32_t)
USE(i64, int64_t)
USE(u64, uint64_t)
USE(f32, float)
USE(f64, double)
USE(vec_u32, std::vector<uint32_t>)
USE(vec_f64, std::vector<double>)
USE(vec_vec_i16, std::vector<std::vector<int16_t>>)

// the bounded reader and the appending writer
void igris_verif_storage_load(igris::deserialize_buffer_storage &s, char *data,
                              size_t size)
{
    s.load(data, size);
}
int igris_verif_storage_avail(igris::deserialize_buffer_storage &s)
{
    return s.avail();
}
void igris_verif_storage_ctor(igris::deserialize_buffer_storage *s,
                              igris::buffer buf)
{
    new (s) igris::deserialize_buffer_storage(buf);
}
void igris_verif_storage_dump(igris::string_storage &s, const char *data,
                              size_t size)
{
    s.dump(data, size);
}
